#!/usr/bin/env python3
"""re-evaluate stored confirm*.json with last-segment test names"""
import json,sys,glob
base=json.load(open('/root/.vp/BASELINE.json'))
stable=set(n.split('::')[-1] for n in base['stable_pass'])
known={'https_works','wss_works'}
for f in sorted(glob.glob('/tmp/seed/*/out/confirm*.json')):
    r=json.load(open(f))
    fA=set(x.split('::')[-1] for x in r['A_demo_only_failed']); fB=set(x.split('::')[-1] for x in r['B_patch_demo_failed'])
    okA = not r['A_compile_error'] and not (fA-known)
    new = (fB-known)-stable
    brokeold = (fB-known)&stable
    ok = r['demo_applies'] and r['patch_applies'] and okA and not r['B_compile_error'] and bool(new) and not brokeold
    print(f.replace('/tmp/seed/',''), 'CONFIRMED' if ok else 'NOT', 'demo-fails:',sorted(new),'old-broken:',sorted(brokeold),'A-extra:',sorted(fA-known))
