#!/usr/bin/env python3
"""Confirm a seeded change in its scratch worktree:
   A) demo only            -> suite passes (only the 2 known offline failures)
   B) patch + demo         -> some NEW (demo) test fails, no baseline test fails
usage: seedcheck.py <worktree> <patch.diff> <demo.diff> <out.json>"""
import json, re, subprocess, sys, os
wt, patch, demo, out = sys.argv[1:5]
base = json.load(open('/root/.vp/BASELINE.json'))
stable = set(n.split('::')[-1] for n in base['stable_pass'])
known_fail = {'https_works', 'wss_works'}
def sh(cmd):
    return subprocess.run(cmd, shell=True, cwd=wt, capture_output=True, text=True)
def clean():
    sh('git checkout -q -- . && git clean -fdq -e out -e target')
def suite():
    p = sh('cargo test --workspace --no-fail-fast --offline 2>&1')
    txt = p.stdout
    failed = set(x.split('::')[-1] for x in re.findall(r'^test (\S+) \.\.\. FAILED', txt, re.M))
    passed = set(x.split('::')[-1] for x in re.findall(r'^test (\S+) \.\.\. ok', txt, re.M))
    comp_err = bool(re.search(r'^error(\[E\d+\])?:', txt, re.M)) and 'could not compile' in txt
    return failed, passed, comp_err, txt[-3000:]
res = {'worktree': wt, 'patch': patch, 'demo': demo}
clean()
a = sh('git apply %s' % demo)
res['demo_applies'] = a.returncode == 0
fA, pA, cA, tA = suite()
res['A_demo_only_failed'] = sorted(fA); res['A_compile_error'] = cA
clean()
a1 = sh('git apply %s' % patch); a2 = sh('git apply %s' % demo)
res['patch_applies'] = a1.returncode == 0 and a2.returncode == 0
fB, pB, cB, tB = suite()
res['B_patch_demo_failed'] = sorted(fB); res['B_compile_error'] = cB
new_tests = (pA | fA) - stable - known_fail
res['demo_tests'] = sorted(new_tests)
res['demo_passes_without_change'] = not cA and (fA - known_fail) == set()
res['demo_fails_with_change'] = bool((fB - known_fail) & new_tests) if new_tests else bool(fB - known_fail)
res['existing_suite_passes_with_change'] = not cB and not ((fB - known_fail) & stable)
res['confirmed'] = bool(res['demo_applies'] and res['patch_applies'] and res['demo_passes_without_change'] and res['demo_fails_with_change'] and res['existing_suite_passes_with_change'])
if not res['confirmed']:
    res['tailA'] = tA[-1500:]; res['tailB'] = tB[-1500:]
clean()
json.dump(res, open(out, 'w'), indent=1)
print(json.dumps({k: res[k] for k in ['patch', 'confirmed', 'demo_passes_without_change', 'demo_fails_with_change', 'existing_suite_passes_with_change']}))
