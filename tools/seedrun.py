#!/usr/bin/env python3
"""Run the registered quick check of each seeded change against /repo with the change applied, then undo it.
usage: seedrun.py [seed-dir ...]   (default: all /verif/seeded/*)"""
import glob, json, os, re, subprocess, sys, time
V = '/verif'
seeds = sys.argv[1:] or sorted(d for d in glob.glob(V + '/seeded/*') if os.path.isdir(d))
man = json.load(open(V + '/MANIFEST.json'))
cmds = {c['property_id']: c['quick_cmd'] for c in man['checks']}
out = []
for sd in seeds:
    meta = json.load(open(os.path.join(sd, 'meta.json')))
    pid = meta['property']
    st = subprocess.run(['git', '-C', '/repo', 'status', '--porcelain'], capture_output=True, text=True).stdout.strip()
    if st:
        print('refusing: /repo is dirty:', st); sys.exit(2)
    a = subprocess.run(['git', '-C', '/repo', 'apply', os.path.join(sd, 'patch.diff')], capture_output=True, text=True)
    res = {'seed': os.path.basename(sd), 'property': pid}
    if a.returncode != 0:
        res['error'] = 'patch does not apply: ' + a.stderr[:300]
    elif pid not in cmds:
        res['result'] = 'property not claimed'
    else:
        t0 = time.time()
        try:
            p = subprocess.run(cmds[pid], shell=True, cwd=V, capture_output=True, text=True, timeout=3600)
            txt = p.stdout + p.stderr
            res['exit'] = p.returncode
            res['violation_lines'] = re.findall(r'^VIOLATION.*$', txt, re.M)
            res['undecided'] = re.findall(r'^UNDECIDED.*$', txt, re.M)[:3]
            res['detected'] = p.returncode == 1 and bool(res['violation_lines'])
        except subprocess.TimeoutExpired:
            res['exit'] = 'timeout'
        res['wall_s'] = round(time.time() - t0, 1)
    subprocess.run(['git', '-C', '/repo', 'checkout', '--', '.'])
    subprocess.run(['git', '-C', '/repo', 'clean', '-fdq', '-e', 'target'])
    print(json.dumps(res))
    out.append(res)
json.dump(out, open(V + '/seeded/RESULTS.json', 'w'), indent=1)
