#!/usr/bin/env python3
"""List, for every /repo source file some unit extracts from, the functions (outside #[cfg(test)] modules) whose
line span is not covered by any extracted item or statement range — i.e. real code next to the code under contract
that no obligation speaks about.  Reads the evidence files of the last run (coverage.functions_under_contract)."""
import glob, json, os, sys
sys.path.insert(0, os.path.join(os.path.dirname(__file__), ".."))
from vlib import rustscan

cov = {}
for f in glob.glob("/verif/evidence/C*.json"):
    for fn in json.load(open(f))["coverage"]["functions_under_contract"]:
        cov.setdefault(fn["file"], set()).add(tuple(fn["lines"]))

def walk(src, items, prefix, out, in_test=False):
    for it in items:
        attrs = src.text[it.start:it.hdr_start]
        if "cfg(test)" in attrs or "cfg(jsonrpsee_verif)" in attrs:
            continue
        if it.kind == "fn":
            out.append((prefix + "fn " + it.name, src.line(it.hdr_start), src.line(it.end - 1), it))
        if it.kind in ("impl", "mod", "trait"):
            walk(src, src.children(it), prefix + it.kind + " " + it.name[:60] + " :: ", out)

only = sys.argv[1:] 
for file in sorted(cov):
    if only and not any(o in file for o in only):
        continue
    src = rustscan.Source(os.path.join("/repo", file))
    fns = []
    walk(src, src.top_items(), "", fns)
    spans = cov[file]
    missing = []
    for name, a, b, it in fns:
        if it.body_open is None:
            continue
        body = b - a
        # evidence line numbers include attribute/doc lines; count a function as touched when an extracted span overlaps it
        covered = any(max(lo, a) <= min(hi, b) for lo, hi in spans)
        if not covered:
            missing.append((name, a, b))
    print("== %s: %d fns, %d not touched" % (file, len(fns), len(missing)))
    for name, a, b in missing:
        print("     %4d-%-4d %s" % (a, b, name))
