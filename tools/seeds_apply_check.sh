#!/bin/bash
# which stored seeds no longer apply to /repo's HEAD
for f in /verif/seeded/*/patch.diff; do git -C /repo apply --check "$f" 2>/dev/null || echo "NOAPPLY $f"; done
