#!/bin/sh
# run every registered quick check on the CURRENT /repo tree (must be clean), validate MANIFEST and evidence files
cd /verif
if [ -n "$(git -C /repo status --porcelain)" ]; then echo "/repo is dirty"; exit 2; fi
python3 gen_manifest.py > /dev/null || { echo "gen_manifest failed"; exit 2; }
rc=0
for id in $(python3 -c "import json; print(' '.join(c['property_id'] for c in json.load(open('MANIFEST.json'))['checks']))"); do
  out=$(./vcheck $id --tier ${1:-quick} 2>&1); code=$?
  echo "$id exit=$code $(echo "$out" | grep -E '^(OK|VIOLATION|UNDECIDED|KNOWN-FINDING)' | cut -c1-120 | tr '\n' ' ')"
  [ $code -ne 0 ] && rc=1
done
python3-vt - <<'PY'
import json, jsonschema, glob
m = json.load(open('/verif/MANIFEST.json'))
jsonschema.validate(m, json.load(open('/root/.vp/MANIFEST.schema.json')))
sch = json.load(open('/root/.vp/EVIDENCE.schema.json'))
for c in m['checks']:
    e = json.load(open(c['evidence_file']))
    jsonschema.validate(e, sch)
    cov = e['coverage']
    assert cov['obligations'] == cov['discharged'] >= 1, (c['property_id'], cov['obligations'], cov['discharged'])
    assert e['violations'] == 0, c['property_id']
print('manifest + %d evidence files valid' % len(m['checks']))
PY
python3 /verif/tools/orphans.py || rc=1
exit $rc
