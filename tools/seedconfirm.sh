#!/bin/sh
# usage: seedconfirm.sh C01 C02 ...   — confirm the deliverables of seeding agents in their scratch worktrees (sequentially)
for id in "$@"; do
  for n in "" 2 3; do
    p=/tmp/seed/$id/out/patch$n.diff; d=/tmp/seed/$id/out/demo$n.diff
    if [ -f "$p" ] && [ -f "$d" ]; then
      python3 /verif/tools/seedcheck.py /tmp/seed/$id $p $d /tmp/seed/$id/out/confirm$n.json
    fi
  done > /tmp/seed/$id.confirm.log 2>&1
  echo "$id: $(cat /tmp/seed/$id.confirm.log | tr '\n' ' ' | cut -c1-400)"
done
