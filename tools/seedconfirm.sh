#!/bin/sh
# usage: seedconfirm.sh [--after PID PREV] C01 C02 ...   — confirm the deliverables of seeding agents in their scratch worktrees
# (sequentially). The build directory is handed from one worktree to the next (only the workspace crates rebuild), so a stream
# needs one target dir. --after: first wait for process PID (a confirmation already running in worktree PREV).
prev=""
if [ "$1" = "--after" ]; then while kill -0 "$2" 2>/dev/null; do sleep 5; done; prev=$3; shift 3; fi
for id in "$@"; do
  if [ -n "$prev" ] && [ -d /tmp/seed/$prev/target ] && [ ! -d /tmp/seed/$id/target ]; then mv /tmp/seed/$prev/target /tmp/seed/$id/target; fi
  # a handed-over build directory holds artifacts NEWER than this worktree's sources: without this cargo would reuse them
  # (built from the previous worktree's patched sources) — make every source of this worktree newer than any artifact
  find /tmp/seed/$id -path /tmp/seed/$id/target -prune -o \( -name '*.rs' -o -name 'Cargo.toml' -o -name '*.stderr' \) -print0 | xargs -0 touch
  for n in "" 2 3; do
    p=/tmp/seed/$id/out/patch$n.diff; d=/tmp/seed/$id/out/demo$n.diff
    if [ -f "$p" ] && [ -f "$d" ]; then
      python3 /verif/tools/seedcheck.py /tmp/seed/$id $p $d /tmp/seed/$id/out/confirm$n.json
    fi
  done > /tmp/seed/$id.confirm.log 2>&1
  echo "$id: $(cat /tmp/seed/$id.confirm.log | tr '\n' ' ' | cut -c1-400)"
  prev=$id
done
