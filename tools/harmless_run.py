#!/usr/bin/env python3
"""False-alarm control: apply each behaviour-preserving patch to /repo, run the quick check of every property whose units
extract from a touched file, undo. A harmless change must never produce exit 1 / a VIOLATION line (exit 2 = undecided is fine).
usage: harmless_run.py <dir with N.diff files> [more dirs]   -> prints one JSON line per (patch, property); writes <dir>/RESULTS.json"""
import glob, json, os, re, subprocess, sys
V = '/verif'
def unit_files(unit):
    files = set()
    seen = set()
    def scan(path):
        if path in seen or not os.path.exists(path):
            return
        seen.add(path)
        for line in open(path, encoding='utf-8'):
            m = re.match(r'\s*//@ (?:fn|item|range) (\S+\.rs) ::', line)
            if m:
                files.add(m.group(1))
            m = re.match(r'\s*//@ include (\S+)', line)
            if m:
                scan(os.path.join(V, m.group(1)))
    scan(os.path.join(V, 'units', unit + '.vt'))
    return files
file_props = {}
for p in sorted(glob.glob(V + '/props/C*.json')):
    pid = os.path.basename(p)[:-5]
    for u in json.load(open(p))['units']:
        name = u if isinstance(u, str) else u['unit']
        for f in unit_files(name):
            file_props.setdefault(f, set()).add(pid)
man = json.load(open(V + '/MANIFEST.json'))
cmds = {c['property_id']: c['quick_cmd'] for c in man['checks']}
for d in sys.argv[1:]:
    out = []
    for patch in sorted(glob.glob(os.path.join(d, '*.diff'))):
        if subprocess.run(['git', '-C', '/repo', 'status', '--porcelain'], capture_output=True, text=True).stdout.strip():
            print('refusing: /repo is dirty'); sys.exit(2)
        a = subprocess.run(['git', '-C', '/repo', 'apply', patch], capture_output=True, text=True)
        if a.returncode != 0:
            out.append({'patch': patch, 'error': a.stderr[:200]}); print(json.dumps(out[-1])); continue
        touched = subprocess.run(['git', '-C', '/repo', 'diff', '--name-only'], capture_output=True, text=True).stdout.split()
        props = sorted(set().union(*[file_props.get(f, set()) for f in touched]) & set(cmds))
        for pid in props:
            p = subprocess.run(cmds[pid], shell=True, cwd=V, capture_output=True, text=True, timeout=3600)
            txt = p.stdout + p.stderr
            r = {'patch': patch, 'files': touched, 'property': pid, 'exit': p.returncode,
                 'violation_lines': re.findall(r'^VIOLATION.*$', txt, re.M)[:3], 'undecided': re.findall(r'^UNDECIDED.*$', txt, re.M)[:2],
                 'false_alarm': p.returncode == 1 or bool(re.search(r'^VIOLATION', txt, re.M))}
            out.append(r); print(json.dumps(r)[:600])
        subprocess.run(['git', '-C', '/repo', 'checkout', '--', '.'])
        subprocess.run(['git', '-C', '/repo', 'clean', '-fdq', '-e', 'target'])
    json.dump(out, open(os.path.join(d, 'RESULTS.json'), 'w'), indent=1)
