#!/usr/bin/env python3
"""Store a confirmed seeded change under /verif/seeded/<name>/ (patch.diff, demo.diff, notes, meta.json).
usage: seedstore.py <name> <property> <patch> <demo> <confirm.json> <notes.md> <needs-text>"""
import json, os, shutil, sys
name, prop, patch, demo, confirm, notes, needs = sys.argv[1:8]
d = os.path.join('/verif/seeded', name)
os.makedirs(d, exist_ok=True)
shutil.copy(patch, os.path.join(d, 'patch.diff'))
shutil.copy(demo, os.path.join(d, 'demo.diff'))
if os.path.exists(notes):
    shutil.copy(notes, os.path.join(d, 'agent_notes.md'))
c = json.load(open(confirm))
meta = {
    'property': prop,
    'needs_to_manifest': needs,
    'confirmed_by': 'tools/seedcheck.py in a scratch worktree of /repo HEAD (cargo test --workspace --no-fail-fast --offline, twice: demo only; patch + demo)',
    'base_commit': os.popen('git -C /repo rev-parse --short HEAD').read().strip(),
    'demo_tests_failing_with_change': sorted(set(x.split('::')[-1] for x in c['B_patch_demo_failed']) - {'https_works', 'wss_works'}),
    'failing_without_change': sorted(set(x.split('::')[-1] for x in c['A_demo_only_failed']) - {'https_works', 'wss_works'}),
    'existing_suite_with_change': 'passes (only the 2 offline-only failures https_works, wss_works)',
}
json.dump(meta, open(os.path.join(d, 'meta.json'), 'w'), indent=1)
print('stored', d)
