#!/usr/bin/env python3
"""Self-check: every function under contract in a unit must be selected by the function filter of at least one property
that lists the unit (otherwise its failures would be dropped silently). Exit 1 if an orphan exists."""
import glob, json, os, re, sys
V = os.path.dirname(os.path.dirname(os.path.abspath(__file__)))
sys.path.insert(0, V)
from vlib import runner
props = {os.path.basename(f)[:-5]: json.load(open(f)) for f in glob.glob(V + '/props/C*.json')}
units = sorted({(u if isinstance(u, str) else u['unit']) for c in props.values() for u in c['units']})
bad = 0
for u in units:
    asm, pairs, gen = runner.assemble_unit('/repo', V, u, os.path.join(V, 'build', 'orphans'))
    for f in asm.functions:
        n = re.sub(r'^fn\s+', '', re.sub(r'\s*\[range\]$', '', f['fn']).split('::')[-1].strip())
        if not any((uc if isinstance(uc, str) else uc['unit']) == u and (isinstance(uc, str) or not uc.get('fns') or re.fullmatch(uc['fns'], n))
                   for c in props.values() for uc in c['units']):
            print('ORPHAN', u, n); bad += 1
print('orphans:', bad)
sys.exit(1 if bad else 0)
