#!/usr/bin/env python3
"""dev helper: assemble + verify one unit, print result"""
import sys, json
sys.path.insert(0, '/verif')
from vlib import runner
u = sys.argv[1]
import os
REPO = os.environ.get('VERIF_REPO', '/repo')
r = runner.verify_unit(REPO, '/verif', u, '/verif/build', canary='--nocanary' not in sys.argv)
print('status', r.status, r.reason)
print('verified', r.verified_fns, 'errors', r.error_fns, 'obligations', r.obligations, 'smt ms', r.solver_ms, 'wall', round(r.wall_s,1), 'canaries', r.canaries)
for f in r.failures:
    print('FAIL', f['id']); print('     ', f['primary'], [ (s['origin'], s['label']) for s in f['secondary']])
if '-v' in sys.argv:
    print(r.raw[-3000:])
if '-t' in sys.argv:
    print(json.dumps(r.trusted, indent=1)); print(json.dumps(r.rewrites, indent=1)); print(json.dumps(r.functions, indent=1))
