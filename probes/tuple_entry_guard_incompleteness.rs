use vstd::prelude::*;
use std::collections::HashMap;
use std::collections::hash_map::Entry;
verus! {
pub assume_specification<T> [std::mem::replace] (dest: &mut T, src: T) -> (r: T)
    ensures r == *old(dest), *final(dest) == src;
pub struct M { pub a: HashMap<u64, u32>, pub b: HashMap<u64, u32> }
impl M {
    fn t1(&mut self, x: u64, y: u64) -> (r: bool)
        ensures !r ==> final(self).a@ == old(self).a@ && final(self).b@ == old(self).b@,
    {
        broadcast use vstd::std_specs::hash::group_hash_axioms;
        match (self.a.entry(x), self.b.entry(y)) {
            (Entry::Occupied(mut ea), Entry::Occupied(eb)) if *ea.get() > 3 => { let _ = std::mem::replace(ea.get_mut(), 7); let _ = eb.remove_entry(); true }
            _ => false,
        }
    }
    fn t2(&mut self, x: u64, y: u64) -> (r: bool)
        ensures !r ==> final(self).a@ == old(self).a@ && final(self).b@ == old(self).b@,
    {
        broadcast use vstd::std_specs::hash::group_hash_axioms;
        let ea = self.a.entry(x);
        let eb = self.b.entry(y);
        match (ea, eb) {
            (Entry::Occupied(ea), Entry::Occupied(eb)) => { let _ = ea.remove_entry(); let _ = eb.remove_entry(); true }
            (_ea, _eb) => false,
        }
    }
    fn t3(&mut self, x: u64) -> (r: bool)
        ensures !r ==> final(self).a@ == old(self).a@,
    {
        broadcast use vstd::std_specs::hash::group_hash_axioms;
        match self.a.entry(x) {
            Entry::Occupied(ea) => { let _ = ea.remove_entry(); true }
            _ => false,
        }
    }
}
}
fn main() {}
