use vstd::prelude::*;
verus! {

pub struct SerdeError { _p: u8 }
pub uninterp spec fn json_of<P>(v: P) -> Seq<u8>;

pub mod serde_json {
    use super::*;
    #[verifier::external_body]
    pub fn to_writer<P>(w: &mut Vec<u8>, value: &P) -> (r: Result<(), SerdeError>)
        ensures r.is_ok() ==> final(w)@ == old(w)@ + json_of(*value),
                r.is_err() ==> old(w)@.is_prefix_of(final(w)@),
    { unimplemented!() }
}

const PARAM_BYTES_CAPACITY: usize = 128;

pub(crate) struct ParamsBuilder {
	bytes: Vec<u8>,
	start: char,
	end: char,
}

pub open spec fn body(vals: Seq<Seq<u8>>) -> Seq<u8> decreases vals.len() {
    if vals.len() == 0 { seq![] } else { body(vals.drop_last()) + vals.last() + seq![44u8] }
}

impl ParamsBuilder {
    pub closed spec fn inv(&self, vals: Seq<Seq<u8>>) -> bool {
        if vals.len() == 0 { self.bytes@.len() == 0 || self.bytes@ == seq![self.start as u8] }
        else { self.bytes@ == seq![self.start as u8] + body(vals) }
    }

	fn maybe_initialize(&mut self)
        ensures final(self).start == old(self).start, final(self).end == old(self).end,
           old(self).bytes@.len() == 0 ==> final(self).bytes@ == seq![old(self).start as u8],
           old(self).bytes@.len() != 0 ==> final(self).bytes@ == old(self).bytes@,
    {
		if self.bytes.is_empty() {
			self.bytes.reserve(PARAM_BYTES_CAPACITY);
			self.bytes.push(self.start as u8);
		}
	}

	pub(crate) fn insert<P>(&mut self, value: P, Ghost(vals): Ghost<Seq<Seq<u8>>>) -> (r: Result<(), SerdeError>)
        requires old(self).inv(vals)
        ensures r.is_ok() ==> final(self).inv(vals.push(json_of(value))),
                r.is_err() ==> final(self).inv(vals),
    {
		self.maybe_initialize();

		serde_json::to_writer(&mut self.bytes, &value)?;
		self.bytes.push(b',');

		Ok(())
	}

	pub(crate) fn build(self) -> (r: Option<Vec<u8>>)
    {
        let mut this = self;
		if this.bytes.is_empty() {
			return None;
		}

		let idx = this.bytes.len() - 1;
		if this.bytes[idx] == b',' {
			this.bytes[idx] = this.end as u8;
		} else {
			this.bytes.push(this.end as u8);
		}
        Some(this.bytes)
	}
}

} // verus!
fn main() {}
