use vstd::prelude::*;
use std::collections::HashMap;
verus! {
pub uninterp spec fn utf8_len(s: Seq<char>) -> nat;
pub assume_specification [std::string::String::len] (s: &std::string::String) -> (n: usize) ensures n == utf8_len(s@);

pub enum Field { A, B, Ignore }
pub struct Acc { pub seqv: Ghost<Seq<Field>>, pub pos: usize }
pub struct E;

#[verifier::external_body]
fn next_key(m: &mut Acc) -> (r: Result<Option<Field>, E>)
{ unimplemented!() }

fn visit(mut map: Acc) -> Result<(Option<u8>, Option<u8>), E> {
    let mut a = None;
    let mut b = None;
    while let Some(key) = next_key(&mut map)? 
        decreases 0int
    {
        match key {
            Field::A => { if a.is_some() { return Err(E); } a = Some(1u8); }
            Field::B => { b = Some(2u8); }
            Field::Ignore => {}
        }
    }
    Ok((a, b))
}

fn strs(m: &mut HashMap<&'static str, u32>, name: &'static str) -> (r: bool)
    ensures r == old(m)@.contains_key(name)
{
    broadcast use vstd::std_specs::hash::group_hash_axioms;
    m.contains_key(name)
}

fn s2(s: &mut String, t: &str) -> (n: usize)
{
    s.push_str(t);
    s.push(',');
    s.len()
}

fn s3(v: &str) -> u8 {
    match v { "jsonrpc" => 1, "id" => 2, _ => 0 }
}

} // verus!
fn main() {}
