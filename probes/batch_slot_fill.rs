use vstd::prelude::*;
use std::ops::Range;
verus! {

#[verifier::external_body]
pub struct RawResponseOwned { _p: u8 }

pub uninterp spec fn rp_id(r: &RawResponseOwned) -> Option<u64>;
pub uninterp spec fn is_placeholder(r: &RawResponseOwned) -> bool;

#[verifier::external_body]
fn placeholder() -> (r: RawResponseOwned) ensures is_placeholder(&r) { unimplemented!() }

#[verifier::external_body]
fn id_num(r: &RawResponseOwned) -> (o: Result<u64, ()>) ensures o.is_ok() == rp_id(r).is_some(), o.is_ok() ==> o.unwrap() == rp_id(r).unwrap() { unimplemented!() }

pub(crate) fn process_batch_response(
	rps: Vec<RawResponseOwned>,
	range: Range<u64>,
) -> (res: Result<Vec<RawResponseOwned>, ()>)
    requires range.start <= range.end, range.end - range.start <= usize::MAX,
    ensures res.is_ok() ==> res.unwrap()@.len() == range.end - range.start,
{
	let mut responses = Vec::with_capacity(rps.len());

	let start_idx = range.start;

	for _i in iter: range
        invariant responses@.len() == iter.index@,
    {
		responses.push(placeholder());
	}

	for rp in it2: rps
        invariant responses@.len() == range.end - range.start,
    {
		let id = id_num(&rp)?;
		let maybe_elem =
			match id.checked_sub(start_idx).and_then(|p| p.try_into().ok()) { Some(p) => { let p: usize = p; responses.get_mut(p) }, None => None };

		if let Some(elem) = maybe_elem {
			*elem = rp;
		} else {
			return Err(());
		}
	}

	Ok(responses)
}

} // verus!
fn main() {}
