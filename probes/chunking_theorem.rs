use vstd::prelude::*;
verus! {

pub open spec fn is_ws(b: u8) -> bool { b == 0x20 || b == 0x09 || b == 0x0a || b == 0x0c || b == 0x0d }

/// index of the first non-whitespace byte among the first `n` bytes of `s`
pub open spec fn fnw(s: Seq<u8>, n: int) -> Option<int>
    decreases s.len()
{
    if s.len() == 0 || n <= 0 { None }
    else if !is_ws(s[0]) { Some(0int) }
    else { match fnw(s.subrange(1, s.len() as int), n - 1) { Some(i) => Some(i + 1), None => None } }
}

pub open spec fn all_ws(s: Seq<u8>) -> bool { forall|i: int| 0 <= i < s.len() ==> is_ws(#[trigger] s[i]) }

pub enum Out { Ok(Seq<u8>, bool), Malformed }

/// Oracle, from the property: the answer is a function of the whole body only.
pub open spec fn outcome(b: Seq<u8>) -> Out {
    match fnw(b, 128) {
        Some(k) => if b[k] == 0x7bu8 { Out::Ok(b.subrange(k, b.len() as int), true) }
                   else if b[k] == 0x5bu8 { Out::Ok(b.subrange(k, b.len() as int), false) }
                   else { Out::Malformed },
        None => Out::Malformed,
    }
}

/// abstract state of the reader loop
pub struct St { pub recv: Seq<u8>, pub single: Option<bool>, pub skipped: int, pub failed: bool }

pub open spec fn init() -> St { St { recv: seq![], single: None, skipped: 0, failed: false } }

/// spec of one loop iteration (what `absorb` must refine) -- the FIXED behaviour
pub open spec fn step(st: St, c: Seq<u8>) -> St {
    if st.failed { st }
    else if st.single is Some { St { recv: st.recv + c, ..st } }
    else {
        match fnw(c, 128 - st.skipped) {
            Some(k) => if c[k] == 0x7bu8 { St { recv: c.subrange(k, c.len() as int), single: Some(true), ..st } }
                       else if c[k] == 0x5bu8 { St { recv: c.subrange(k, c.len() as int), single: Some(false), ..st } }
                       else { St { failed: true, ..st } },
            None => if c.len() >= 128 - st.skipped { St { failed: true, ..st } } else { St { skipped: st.skipped + c.len(), ..st } },
        }
    }
}

pub open spec fn run(cs: Seq<Seq<u8>>) -> St decreases cs.len() {
    if cs.len() == 0 { init() } else { step(run(cs.drop_last()), cs.last()) }
}
pub open spec fn concat(cs: Seq<Seq<u8>>) -> Seq<u8> decreases cs.len() {
    if cs.len() == 0 { seq![] } else { concat(cs.drop_last()) + cs.last() }
}
pub open spec fn finish(st: St) -> Out {
    if st.failed { Out::Malformed } else { match st.single { Some(s) => if st.recv.len() > 0 { Out::Ok(st.recv, s) } else { Out::Malformed }, None => Out::Malformed } }
}

// ---- lemmas about fnw
proof fn fnw_none(s: Seq<u8>, n: int)
    ensures fnw(s, n) is None <==> (forall|i: int| 0 <= i < s.len() && i < n ==> is_ws(#[trigger] s[i])),
    decreases s.len()
{
    if s.len() == 0 || n <= 0 {} else if !is_ws(s[0]) {} else {
        let t = s.subrange(1, s.len() as int);
        fnw_none(t, n - 1);
        assert forall|i: int| 0 <= i < t.len() implies t[i] == s[i + 1] by {}
        if fnw(t, n - 1) is None {
            assert forall|i: int| 0 <= i < s.len() && i < n implies is_ws(#[trigger] s[i]) by { if i > 0 { assert(s[i] == t[i - 1]); } }
        } else {
            let j = choose|j: int| 0 <= j < t.len() && j < n - 1 && !is_ws(t[j]);
            assert(!is_ws(s[j + 1]));
        }
    }
}
proof fn fnw_some(s: Seq<u8>, n: int)
    ensures fnw(s, n) is Some ==> { let k = fnw(s, n)->Some_0; 0 <= k < s.len() && k < n && !is_ws(s[k]) && (forall|i: int| 0 <= i < k ==> is_ws(#[trigger] s[i])) },
    decreases s.len()
{
    if s.len() == 0 || n <= 0 {} else if !is_ws(s[0]) {} else {
        let t = s.subrange(1, s.len() as int);
        fnw_some(t, n - 1);
        if fnw(t, n - 1) is Some {
            let k = fnw(t, n - 1)->Some_0;
            assert forall|i: int| 0 <= i < k + 1 implies is_ws(#[trigger] s[i]) by { if i > 0 { assert(s[i] == t[i - 1]); } }
        }
    }
}
/// characterisation: fnw(s,n) == Some(k) iff k is the least non-ws index and k < n
proof fn fnw_char(s: Seq<u8>, n: int, k: int)
    requires 0 <= k < s.len(), k < n, !is_ws(s[k]), forall|i: int| 0 <= i < k ==> is_ws(#[trigger] s[i])
    ensures fnw(s, n) == Some(k)
{
    fnw_none(s, n); fnw_some(s, n);
    if fnw(s, n) is None { assert(is_ws(s[k])); }
    else { let j = fnw(s, n)->Some_0; if j < k { assert(is_ws(s[j])); } else if k < j { assert(is_ws(s[k])); } }
}

/// invariant linking the loop state to the bytes seen so far
pub open spec fn rel(st: St, b: Seq<u8>) -> bool {
    if st.failed { forall|t: Seq<u8>| #[trigger] outcome(b + t) == Out::Malformed }
    else { match st.single {
        None => all_ws(b) && b.len() == st.skipped && st.skipped < 128 && st.recv.len() == 0,
        Some(s) => fnw(b, 128) is Some && { let k = fnw(b, 128)->Some_0; st.recv == b.subrange(k, b.len() as int) && (b[k] == 0x7bu8 <==> s) && (b[k] == 0x5bu8 <==> !s) && (b[k] == 0x7bu8 || b[k] == 0x5bu8) },
    } }
}

proof fn step_preserves(st: St, b: Seq<u8>, c: Seq<u8>)
    requires rel(st, b)
    ensures rel(step(st, c), b + c)
{
    let st2 = step(st, c);
    let b2 = b + c;
    if st.failed {
        assert forall|t: Seq<u8>| #[trigger] outcome(b2 + t) == Out::Malformed by { assert(b2 + t == b + (c + t)); }
    } else if st.single is Some {
        fnw_some(b, 128);
        let k = fnw(b, 128)->Some_0;
        assert forall|i: int| 0 <= i < k implies is_ws(#[trigger] b2[i]) by { assert(b2[i] == b[i]); }
        assert(b2[k] == b[k]);
        fnw_char(b2, 128, k);
        assert(st2.recv == b2.subrange(k, b2.len() as int));
    } else {
        let w = 128 - st.skipped;
        fnw_none(c, w); fnw_some(c, w);
        match fnw(c, w) {
            Some(k) => {
                let kk = b.len() + k;
                assert forall|i: int| 0 <= i < kk implies is_ws(#[trigger] b2[i]) by { if i < b.len() { assert(b2[i] == b[i]); } else { assert(b2[i] == c[i - b.len()]); } }
                assert(b2[kk] == c[k]);
                fnw_char(b2, 128, kk);
                if c[k] == 0x7bu8 || c[k] == 0x5bu8 {
                    assert(st2.recv == b2.subrange(kk, b2.len() as int));
                } else {
                    assert forall|t: Seq<u8>| #[trigger] outcome(b2 + t) == Out::Malformed by {
                        let b3 = b2 + t;
                        assert forall|i: int| 0 <= i < kk implies is_ws(#[trigger] b3[i]) by { assert(b3[i] == b2[i]); }
                        assert(b3[kk] == b2[kk]);
                        fnw_char(b3, 128, kk);
                    }
                }
            }
            None => {
                if c.len() >= w {
                    // at least 128 leading whitespace bytes
                    assert forall|t: Seq<u8>| #[trigger] outcome(b2 + t) == Out::Malformed by {
                        let b3 = b2 + t;
                        fnw_none(b3, 128);
                        assert forall|i: int| 0 <= i < b3.len() && i < 128 implies is_ws(#[trigger] b3[i]) by {
                            if i < b.len() { assert(b3[i] == b[i]); } else { assert(b3[i] == c[i - b.len()]); }
                        }
                    }
                } else {
                    assert forall|i: int| 0 <= i < b2.len() implies is_ws(#[trigger] b2[i]) by { if i < b.len() { assert(b2[i] == b[i]); } else { assert(b2[i] == c[i - b.len()]); } }
                }
            }
        }
    }
}

proof fn run_rel(cs: Seq<Seq<u8>>)
    ensures rel(run(cs), concat(cs))
    decreases cs.len()
{
    if cs.len() == 0 { } else { run_rel(cs.drop_last()); step_preserves(run(cs.drop_last()), concat(cs.drop_last()), cs.last()); }
}

/// THEOREM (C19): the result depends only on the bytes of the body, not on the chunking.
proof fn chunking_irrelevant(cs: Seq<Seq<u8>>)
    ensures finish(run(cs)) == outcome(concat(cs))
{
    run_rel(cs);
    let st = run(cs); let b = concat(cs);
    if st.failed { assert(b + Seq::<u8>::empty() == b); assert(outcome(b + Seq::<u8>::empty()) == Out::Malformed); }
    else if st.single is None { fnw_none(b, 128); }
    else { fnw_some(b, 128); }
}

} // verus!
fn main() {}
