use vstd::prelude::*;
verus! {

pub enum Field { Jsonrpc, Result, Error, Id, Ignore }
pub struct IgnoredAny;

// ghost description of one member: its key class and whether its value deserialises
pub struct Member { pub key: Field, pub ok: bool }

pub trait MapAccess: Sized {
    type Error;
    spec fn members(&self) -> Seq<Member>;   // remaining members
    spec fn at_value(&self) -> bool;          // key consumed, value pending

    fn next_key(&mut self) -> (r: Result<Option<Field>, Self::Error>)
        requires !old(self).at_value()
        ensures
            r is Ok && r->Ok_0 is None ==> old(self).members().len() == 0 && final(self).members() == old(self).members() && !final(self).at_value(),
            r is Ok && r->Ok_0 is Some ==> old(self).members().len() > 0 && r->Ok_0->Some_0 == old(self).members()[0].key
                && final(self).members() == old(self).members() && final(self).at_value();
    fn next_value<V>(&mut self) -> (r: Result<V, Self::Error>)
        requires old(self).at_value(), old(self).members().len() > 0
        ensures
            r is Ok <==> old(self).members()[0].ok,
            r is Ok ==> final(self).members() == old(self).members().subrange(1, old(self).members().len() as int) && !final(self).at_value();
    fn dup(field: &'static str) -> Self::Error;
    fn missing(field: &'static str) -> Self::Error;
}

pub struct Resp { pub jsonrpc: Option<Option<u8>>, pub result: Option<u32>, pub error: Option<u64>, pub id: u16 }

fn visit_map<V: MapAccess>(mut map: V) -> (r: Result<Resp, V::Error>)
    requires !map.at_value()
{
    let mut jsonrpc: Option<Option<u8>> = None;
    let mut result: Option<u32> = None;
    let mut error: Option<u64> = None;
    let mut id: Option<u16> = None;
    while let Some(key) = map.next_key()?
        invariant !map.at_value()
        decreases map.members().len()
    {
        match key {
            Field::Result => {
                if result.is_some() {
                    return Err(V::dup("result"));
                }
                result = Some(map.next_value()?);
            }
            Field::Error => {
                if error.is_some() {
                    return Err(V::dup("error"));
                }
                error = Some(map.next_value()?);
            }
            Field::Id => {
                if id.is_some() {
                    return Err(V::dup("id"));
                }
                id = Some(map.next_value()?);
            }
            Field::Jsonrpc => {
                if jsonrpc.is_some() {
                    return Err(V::dup("jsonrpc"));
                }
                jsonrpc = Some(map.next_value()?);
            }
            Field::Ignore => {
                let _ = map.next_value::<IgnoredAny>()?;
            }
        }
    }
    let id = match id { Some(i) => i, None => return Err(V::missing("id")) };
    Ok(Resp { jsonrpc, result, error, id })
}
}
fn main() {}
