use vstd::prelude::*;
use std::collections::{HashMap, hash_map::Entry};
use std::ops::Range;
use std::borrow::Cow;
verus! {
pub assume_specification<T> [std::mem::replace] (dest: &mut T, src: T) -> (r: T)
    ensures r == *old(dest), *final(dest) == src;

pub assume_specification<T, U, F: FnOnce(T) -> U> [Option::<T>::map_or] (o: Option<T>, default: U, f: F) -> (r: U)
    requires o is Some ==> call_requires(f, (o->Some_0,)),
    ensures o is None ==> r == default, o is Some ==> call_ensures(f, (o->Some_0,), r);
pub mod oneshot { 
    use vstd::prelude::*;
    #[verifier::external_body] #[verifier::reject_recursive_types(T)] pub struct Sender<T> { _p: core::marker::PhantomData<T> } 
}
#[verifier::external_body] pub struct RawResponseOwned { _p: u8 }
#[verifier::external_body] pub struct SubscriptionReceiver { _p: u8 }
#[verifier::external_body] pub struct SubscriptionSender { _p: u8 }
#[verifier::external_body] pub struct Error { _p: u8 }
pub enum InvalidRequestId { NotPendingRequest(String), Occupied(String), Invalid(String) }
pub enum RegisterMethodError { AlreadyRegistered(String) }

#[derive(PartialEq, Eq, Hash, Clone)]
pub enum Id<'a> { Null, Number(u64), Str(Cow<'a, str>) }
impl Id<'_> { #[verifier::external_body] pub fn into_owned(self) -> Id<'static> { unimplemented!() } }
#[derive(PartialEq, Eq, Hash, Clone)]
pub enum SubscriptionId<'a> { Num(u64), Str(Cow<'a, str>) }
enum Kind {
	PendingMethodCall(PendingCallOneshot),
	PendingSubscription((RequestId, PendingSubscriptionOneshot, UnsubscribeMethod)),
	Subscription((RequestId, SubscriptionSink, UnsubscribeMethod)),
}

#[derive(Clone)]
pub(crate) enum RequestStatus {
	PendingMethodCall,
	PendingSubscription,
	Subscription,
	Invalid,
}

type PendingCallOneshot = Option<oneshot::Sender<Result<RawResponseOwned, InvalidRequestId>>>;
type PendingBatchOneshot = oneshot::Sender<Result<Vec<RawResponseOwned>, InvalidRequestId>>;
type PendingSubscriptionOneshot = oneshot::Sender<Result<(SubscriptionReceiver, SubscriptionId<'static>), Error>>;
type SubscriptionSink = SubscriptionSender;
type UnsubscribeMethod = String;
type RequestId = Id<'static>;
pub(crate) struct BatchState {
	pub(crate) send_back: PendingBatchOneshot,
}

#[derive(Default)]
pub(crate) struct RequestManager {
	requests: HashMap<RequestId, Kind>,
	subscriptions: HashMap<SubscriptionId<'static>, RequestId>,
	batches: HashMap<Range<u64>, BatchState>,
	notification_handlers: HashMap<String, SubscriptionSink>,
}
impl RequestManager {
	pub(crate) fn new() -> Self {
		Self::default()
	}
	pub(crate) fn insert_pending_call(
		&mut self,
		id: RequestId,
		send_back: PendingCallOneshot,
	) -> Result<(), PendingCallOneshot> {
		if let Entry::Vacant(v) = self.requests.entry(id) {
			v.insert(Kind::PendingMethodCall(send_back));
			Ok(())
		} else {
			Err(send_back)
		}
	}
	pub(crate) fn insert_pending_batch(
		&mut self,
		batch: Range<u64>,
		send_back: PendingBatchOneshot,
	) -> Result<(), PendingBatchOneshot> {
		if let Entry::Vacant(v) = self.batches.entry(batch) {
			v.insert(BatchState { send_back });
			Ok(())
		} else {
			Err(send_back)
		}
	}
	pub(crate) fn insert_pending_subscription(
		&mut self,
		sub_req_id: RequestId,
		unsub_req_id: RequestId,
		send_back: PendingSubscriptionOneshot,
		unsubscribe_method: UnsubscribeMethod,
	) -> Result<(), PendingSubscriptionOneshot> {
		if !self.requests.contains_key(&sub_req_id)
			&& !self.requests.contains_key(&unsub_req_id)
			&& sub_req_id != unsub_req_id
		{
			self.requests
				.insert(sub_req_id, Kind::PendingSubscription((unsub_req_id.clone(), send_back, unsubscribe_method)));
			self.requests.insert(unsub_req_id, Kind::PendingMethodCall(None));
			Ok(())
		} else {
			Err(send_back)
		}
	}
	pub(crate) fn insert_subscription(
		&mut self,
		sub_req_id: RequestId,
		unsub_req_id: RequestId,
		subscription_id: SubscriptionId<'static>,
		send_back: SubscriptionSink,
		unsubscribe_method: UnsubscribeMethod,
	) -> Result<(), SubscriptionSink> {
		if let (Entry::Vacant(request), Entry::Vacant(subscription)) =
			(self.requests.entry(sub_req_id.clone()), self.subscriptions.entry(subscription_id))
		{
			request.insert(Kind::Subscription((unsub_req_id, send_back, unsubscribe_method)));
			subscription.insert(sub_req_id);
			Ok(())
		} else {
			Err(send_back)
		}
	}
	pub(crate) fn insert_notification_handler(
		&mut self,
		method: &str,
		send_back: SubscriptionSink,
	) -> Result<(), RegisterMethodError> {
		if let Entry::Vacant(handle) = self.notification_handlers.entry(method.to_owned()) {
			handle.insert(send_back);
			Ok(())
		} else {
			Err(RegisterMethodError::AlreadyRegistered(method.to_owned()))
		}
	}
	pub(crate) fn remove_notification_handler(&mut self, method: &str) -> Option<SubscriptionSink> {
		self.notification_handlers.remove(method)
	}
	pub(crate) fn complete_pending_subscription(
		&mut self,
		request_id: RequestId,
	) -> Option<(RequestId, PendingSubscriptionOneshot, UnsubscribeMethod)> {
		match self.requests.entry(request_id) {
			Entry::Occupied(request) if matches!(request.get(), Kind::PendingSubscription(_)) => {
				let (_req_id, kind) = request.remove_entry();
				if let Kind::PendingSubscription(send_back) = kind {
					Some(send_back)
				} else {
					unreachable!("Pending subscription is Pending subscription checked above; qed");
				}
			}
			_ => None,
		}
	}
	pub(crate) fn complete_pending_batch(&mut self, batch: Range<u64>) -> Option<BatchState> {
		match self.batches.entry(batch) {
			Entry::Occupied(request) => {
				let (_digest, state) = request.remove_entry();
				Some(state)
			}
			_ => None,
		}
	}
	pub(crate) fn complete_pending_call(&mut self, request_id: RequestId) -> Option<PendingCallOneshot> {
		match self.requests.entry(request_id) {
			Entry::Occupied(request) if matches!(request.get(), Kind::PendingMethodCall(_)) => {
				let (_req_id, kind) = request.remove_entry();
				if let Kind::PendingMethodCall(send_back) = kind {
					Some(send_back)
				} else {
					unreachable!("Pending call is Pending call checked above; qed");
				}
			}
			_ => None,
		}
	}
	pub(crate) fn remove_subscription(
		&mut self,
		request_id: RequestId,
		subscription_id: SubscriptionId<'static>,
	) -> Option<(RequestId, SubscriptionSink, UnsubscribeMethod, SubscriptionId<'_>)> {
		match (self.requests.entry(request_id), self.subscriptions.entry(subscription_id)) {
			(Entry::Occupied(request), Entry::Occupied(subscription))
				if matches!(request.get(), Kind::Subscription(_)) =>
			{
				let (_req_id, kind) = request.remove_entry();
				let (sub_id, _req_id) = subscription.remove_entry();
				if let Kind::Subscription((unsub_req_id, send_back, unsub)) = kind {
					Some((unsub_req_id, send_back, unsub, sub_id))
				} else {
					unreachable!("Subscription is Subscription checked above; qed");
				}
			}
			_ => None,
		}
	}
	pub(crate) fn unsubscribe(
		&mut self,
		request_id: RequestId,
		subscription_id: SubscriptionId<'static>,
	) -> Option<(RequestId, SubscriptionSink, UnsubscribeMethod, SubscriptionId<'_>)> {
		match (self.requests.entry(request_id), self.subscriptions.entry(subscription_id)) {
			(Entry::Occupied(mut request), Entry::Occupied(subscription))
				if matches!(request.get(), Kind::Subscription(_)) =>
			{
				let kind = std::mem::replace(request.get_mut(), Kind::PendingMethodCall(None));
				let (sub_id, _req_id) = subscription.remove_entry();
				if let Kind::Subscription((unsub_req_id, send_back, unsub)) = kind {
					Some((unsub_req_id, send_back, unsub, sub_id))
				} else {
					unreachable!("Subscription is Subscription checked above; qed");
				}
			}
			_ => None,
		}
	}
	pub(crate) fn request_status(&mut self, id: &RequestId) -> RequestStatus {
		self.requests.get(id).map_or(RequestStatus::Invalid, |kind| match kind {
			Kind::PendingMethodCall(_) => RequestStatus::PendingMethodCall,
			Kind::PendingSubscription(_) => RequestStatus::PendingSubscription,
			Kind::Subscription(_) => RequestStatus::Subscription,
		})
	}
	#[verifier::external_body]
	pub(crate) fn as_subscription_mut(&mut self, request_id: &RequestId) -> Option<&mut SubscriptionSink> {
		if let Some(Kind::Subscription((_, sink, _))) = self.requests.get_mut(request_id) { Some(sink) } else { None }
	}
	#[verifier::external_body]
	pub(crate) fn as_notification_handler_mut(&mut self, method: String) -> Option<&mut SubscriptionSink> {
		self.notification_handlers.get_mut(&method)
	}
	pub(crate) fn get_request_id_by_subscription_id(&self, sub_id: &SubscriptionId) -> Option<RequestId> {
		self.subscriptions.get(sub_id).map(|id| id.clone().into_owned())
	}
}
}
fn main() {}
