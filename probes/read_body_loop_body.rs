use vstd::prelude::*;
verus! {

pub enum HttpError { TooLarge, Malformed }

pub open spec fn is_ws(b: u8) -> bool { b == 0x20 || b == 0x09 || b == 0x0a || b == 0x0c || b == 0x0d }

// index of first non-ws byte in s[..min(n,len)], if any
pub open spec fn first_non_ws_spec(s: Seq<u8>, n: int) -> Option<int>
    decreases s.len()
{
    if s.len() == 0 || n <= 0 { None }
    else if !is_ws(s[0]) { Some(0int) }
    else { match first_non_ws_spec(s.subrange(1, s.len() as int), n - 1) { Some(i) => Some(i + 1), None => None } }
}

#[verifier::external_body]
fn first_non_ws(s: &[u8], n: usize) -> (r: Option<(usize, u8)>)
    ensures
        match r { Some((i, b)) => first_non_ws_spec(s@, n as int) == Some(i as int) && i < s@.len() && b == s@[i as int],
                  None => first_non_ws_spec(s@, n as int) is None }
{ unimplemented!() }

// real loop body (current tree), D6 applied
fn absorb(received_data: &mut Vec<u8>, is_single: &mut Option<bool>, data: &[u8]) -> (r: Result<(), HttpError>)
{
	if received_data.is_empty() {
		let first_non_whitespace = first_non_ws(data, 128);

		let skip = match first_non_whitespace {
			Some((idx, b'{')) => {
				*is_single = Some(true);
				idx
			}
			Some((idx, b'[')) => {
				*is_single = Some(false);
				idx
			}
			_ => return Err(HttpError::Malformed),
		};

		// ignore whitespace as these doesn't matter just makes the JSON decoding slower.
		received_data.extend_from_slice(&data[skip..]);
	} else {
		received_data.extend_from_slice(data);
	}
    Ok(())
}

} // verus!
fn main() {}
