use vstd::prelude::*;
use std::collections::HashMap;
use std::collections::hash_map::Entry;
verus! {

pub assume_specification<T> [std::mem::replace] (dest: &mut T, src: T) -> (r: T)
    ensures r == *old(dest), *final(dest) == src;

#[verifier::external_body]
pub struct PendingCallOneshot { _p: u8 }
#[verifier::external_body]
pub struct PendingSubscriptionOneshot { _p: u8 }
#[verifier::external_body]
pub struct SubscriptionSink { _p: u8 }

type UnsubscribeMethod = String;

#[derive(PartialEq, Eq, Hash, Clone)]
pub enum Id {
	Null,
	Number(u64),
	Str(String),
}
type RequestId = Id;

#[verifier::external_body]
pub broadcast proof fn axiom_id_key_model()
    ensures #[trigger] vstd::std_specs::hash::obeys_key_model::<Id>(),
{}


enum Kind {
	PendingMethodCall(Option<PendingCallOneshot>),
	PendingSubscription((RequestId, PendingSubscriptionOneshot, UnsubscribeMethod)),
	Subscription((RequestId, SubscriptionSink, UnsubscribeMethod)),
}

pub struct RequestManager {
	requests: HashMap<RequestId, Kind>,
	subscriptions: HashMap<u64, RequestId>,
}

impl RequestManager {
	pub(crate) fn insert_pending_call(
		&mut self,
		id: RequestId,
		send_back: Option<PendingCallOneshot>,
	) -> (r: Result<(), Option<PendingCallOneshot>>)
        ensures r.is_ok() == !old(self).requests@.contains_key(id),
                r.is_err() ==> final(self).requests@ == old(self).requests@,
                r.is_ok() ==> final(self).requests@ == old(self).requests@.insert(id, Kind::PendingMethodCall(send_back)),
                final(self).subscriptions@ == old(self).subscriptions@,
    {
        broadcast use {vstd::std_specs::hash::group_hash_axioms, axiom_id_key_model};
		if let Entry::Vacant(v) = self.requests.entry(id) {
			v.insert(Kind::PendingMethodCall(send_back));
			Ok(())
		} else {
			Err(send_back)
		}
	}

	pub(crate) fn complete_pending_call(&mut self, request_id: RequestId) -> (r: Option<Option<PendingCallOneshot>>)
        ensures
            r.is_some() == (old(self).requests@.contains_key(request_id) && old(self).requests@[request_id] is PendingMethodCall),
            r.is_some() ==> final(self).requests@ == old(self).requests@.remove(request_id),
            r.is_none() ==> final(self).requests@ == old(self).requests@,
    {
        broadcast use {vstd::std_specs::hash::group_hash_axioms, axiom_id_key_model};
		match self.requests.entry(request_id) {
			Entry::Occupied(request) if matches!(request.get(), Kind::PendingMethodCall(_)) => {
				let (_req_id, kind) = request.remove_entry();
				if let Kind::PendingMethodCall(send_back) = kind {
					Some(send_back)
				} else {
					unreachable!("Pending call is Pending call checked above; qed");
				}
			}
			_ => None,
		}
	}

	pub(crate) fn unsubscribe(
		&mut self,
		request_id: RequestId,
		subscription_id: u64,
	) -> (r: Option<(RequestId, SubscriptionSink, UnsubscribeMethod, u64)>)
    {
		match (self.requests.entry(request_id), self.subscriptions.entry(subscription_id)) {
			(Entry::Occupied(mut request), Entry::Occupied(subscription))
				if matches!(request.get(), Kind::Subscription(_)) =>
			{
				let kind = std::mem::replace(request.get_mut(), Kind::PendingMethodCall(None));
				let (sub_id, _req_id) = subscription.remove_entry();
				if let Kind::Subscription((unsub_req_id, send_back, unsub)) = kind {
					Some((unsub_req_id, send_back, unsub, sub_id))
				} else {
					unreachable!("Subscription is Subscription checked above; qed");
				}
			}
			_ => None,
		}
	}
}

} // verus!
fn main() {}
