use vstd::prelude::*;
verus! {

pub struct Sink { pub closed: bool }

#[verifier::external_body]
async fn inner_send(s: &Sink, x: u64) -> (r: Result<(), u64>)
    ensures s.closed ==> r.is_err()
{ unimplemented!() }

async fn send(s: &Sink, x: u64) -> (r: Result<(), u64>)
    ensures s.closed ==> r.is_err()
{
    if s.closed { return Err(x); }
    inner_send(s, x).await
}

} // verus!
fn main() {}
