use vstd::prelude::*;
use std::collections::HashMap;
use std::collections::hash_map::Entry;
verus! {

pub assume_specification<T> [std::mem::replace] (dest: &mut T, src: T) -> (r: T)
    ensures r == *old(dest), *final(dest) == src;

#[verifier::external_body] pub struct PendingCallOneshot { _p: u8 }
#[verifier::external_body] pub struct PendingSubscriptionOneshot { _p: u8 }
#[verifier::external_body] pub struct SubscriptionSink { _p: u8 }
type UnsubscribeMethod = String;
type RequestId = u64;
type SubId = u64;

pub enum Kind {
	PendingMethodCall(Option<PendingCallOneshot>),
	PendingSubscription((RequestId, PendingSubscriptionOneshot, UnsubscribeMethod)),
	Subscription((RequestId, SubscriptionSink, UnsubscribeMethod)),
}

pub struct RequestManager {
	pub requests: HashMap<RequestId, Kind>,
	pub subscriptions: HashMap<SubId, RequestId>,
}

pub open spec fn unsub_of(k: Kind) -> Option<RequestId> {
    match k { Kind::PendingSubscription((u, _, _)) => Some(u), Kind::Subscription((u, _, _)) => Some(u), _ => None }
}
pub open spec fn is_slot(k: Kind) -> bool { k matches Kind::PendingMethodCall(None) }

impl RequestManager {
    pub open spec fn wf(&self) -> bool {
        &&& forall|s: SubId| #[trigger] self.subscriptions@.contains_key(s) ==> self.requests@.contains_key(self.subscriptions@[s]) && self.requests@[self.subscriptions@[s]] is Subscription
        &&& forall|s1: SubId, s2: SubId| #![trigger self.subscriptions@[s1], self.subscriptions@[s2]] self.subscriptions@.contains_key(s1) && self.subscriptions@.contains_key(s2) && self.subscriptions@[s1] == self.subscriptions@[s2] ==> s1 == s2
        // I3: every (pending) subscription has its reservation
        &&& forall|r: RequestId| #[trigger] self.requests@.contains_key(r) && unsub_of(self.requests@[r]) is Some ==>
                self.requests@.contains_key(unsub_of(self.requests@[r]).unwrap()) && is_slot(self.requests@[unsub_of(self.requests@[r]).unwrap()])
    }
    pub open spec fn owed(&self, u: RequestId) -> bool {
        self.requests@.contains_key(u) && is_slot(self.requests@[u])
            && !(exists|r: RequestId| #[trigger] self.requests@.contains_key(r) && unsub_of(self.requests@[r]) == Some(u))
    }

	pub(crate) fn unsubscribe(
		&mut self,
		request_id: RequestId,
		subscription_id: SubId,
	) -> (r: Option<(RequestId, SubscriptionSink, UnsubscribeMethod, SubId)>)
        requires old(self).wf()
        ensures
            r is Some <==> (old(self).requests@.contains_key(request_id) && old(self).requests@[request_id] is Subscription && old(self).subscriptions@.contains_key(subscription_id)),
            r is None ==> final(self).requests@ == old(self).requests@ && final(self).subscriptions@ == old(self).subscriptions@,
            r is Some ==> final(self).subscriptions@ == old(self).subscriptions@.remove(subscription_id),
            // property C18: the subscription's own entry is gone
            r is Some ==> final(self).requests@ == old(self).requests@.remove(request_id),
    {
        broadcast use vstd::std_specs::hash::group_hash_axioms;
		match (self.requests.entry(request_id), self.subscriptions.entry(subscription_id)) {
			(Entry::Occupied(mut request), Entry::Occupied(subscription))
				if matches!(request.get(), Kind::Subscription(_)) =>
			{
				let kind = std::mem::replace(request.get_mut(), Kind::PendingMethodCall(None));
				let (sub_id, _req_id) = subscription.remove_entry();
				if let Kind::Subscription((unsub_req_id, send_back, unsub)) = kind {
					Some((unsub_req_id, send_back, unsub, sub_id))
				} else {
					unreachable!("Subscription is Subscription checked above; qed");
				}
			}
			_ => None,
		}
	}
}
}
fn main() {}
