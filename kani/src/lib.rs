//! Kani harnesses on the REAL crates (path dependencies on /repo). Loop-free harnesses over full-domain symbolic inputs are
//! complete proofs; harnesses with an unwinding bound are labelled bounded in the evidence and never counted as proved.
#[cfg(kani)]
mod harnesses {
	use jsonrpsee_types::error::ErrorCode;

	/// C15: every integer error code maps to a kind and back to the same integer (all 2^32 codes; loop-free => complete).
	#[kani::proof]
	fn error_code_int_kind_int() {
		let c: i32 = kani::any();
		assert!(ErrorCode::from(c).code() == c);
	}

	/// C15: every kind the library defines maps to its code and back to the same kind.
	#[kani::proof]
	fn error_code_kind_int_kind() {
		let which: u8 = kani::any();
		let c: i32 = kani::any();
		let k = match which % 8 {
			0 => ErrorCode::ParseError,
			1 => ErrorCode::OversizedRequest,
			2 => ErrorCode::InvalidRequest,
			3 => ErrorCode::MethodNotFound,
			4 => ErrorCode::ServerIsBusy,
			5 => ErrorCode::InvalidParams,
			6 => ErrorCode::InternalError,
			_ => {
				// ServerError(c) is a kind the library defines only for c that is no named kind's code
				kani::assume(![-32700, -32007, -32600, -32601, -32009, -32602, -32603].contains(&c));
				ErrorCode::ServerError(c)
			}
		};
		assert!(ErrorCode::from(k.code()) == k);
	}

	/// Rule D6 (bounded in the slice length only): the iterator chain the extractor replaces means "index and byte of the first
	/// byte that is not JSON whitespace among the first n bytes" (server: read_body and the WebSocket message task).
	#[kani::proof]
	#[kani::unwind(12)]
	fn d6_first_non_ws_chain() {
		const LEN: usize = 10;
		let data: [u8; LEN] = kani::any();
		let len: usize = kani::any();
		kani::assume(len <= LEN);
		let n: usize = kani::any();
		kani::assume(n <= LEN + 1);
		let s = &data[..len];
		let got = s.iter().enumerate().take(n).find(|(_, byte)| !matches!(**byte, b' ' | b'\t' | b'\n' | b'\r'));
		let is_ws = |b: u8| b == 0x20 || b == 0x09 || b == 0x0a || b == 0x0d;
		match got {
			Some((i, b)) => {
				assert!(i < len && i < n && *b == s[i] && !is_ws(s[i]));
				let mut j = 0;
				while j < i {
					assert!(is_ws(s[j]));
					j += 1;
				}
			}
			None => {
				let mut j = 0;
				while j < len && j < n {
					assert!(is_ws(s[j]));
					j += 1;
				}
			}
		}
	}

	/// Rule D6, the same chain over `is_ascii_whitespace` (the stand-in `first_non_ascii_ws`): the form feed counts as whitespace.
	#[kani::proof]
	#[kani::unwind(12)]
	fn d6_first_non_ascii_ws_chain() {
		const LEN: usize = 10;
		let data: [u8; LEN] = kani::any();
		let len: usize = kani::any();
		kani::assume(len <= LEN);
		let n: usize = kani::any();
		kani::assume(n <= LEN + 1);
		let s = &data[..len];
		let got = s.iter().enumerate().take(n).find(|(_, b)| !b.is_ascii_whitespace());
		let is_ws = |b: u8| b == b' ' || b == b'\t' || b == b'\n' || b == 0x0c || b == b'\r';
		match got {
			Some((i, b)) => {
				assert!(i < len && i < n && *b == s[i] && !is_ws(s[i]));
				let mut j = 0;
				while j < i {
					assert!(is_ws(s[j]));
					j += 1;
				}
			}
			None => {
				let mut j = 0;
				while j < len && j < n {
					assert!(is_ws(s[j]));
					j += 1;
				}
			}
		}
	}

	/// Rule D6, variant without `.enumerate()` (bounded in the slice length only): the byte found is the first byte that is not
	/// JSON whitespace among the first n bytes.
	#[kani::proof]
	#[kani::unwind(12)]
	fn d6_take_find_chain() {
		const LEN: usize = 10;
		let data: [u8; LEN] = kani::any();
		let len: usize = kani::any();
		kani::assume(len <= LEN);
		let n: usize = kani::any();
		kani::assume(n <= LEN + 1);
		let s = &data[..len];
		let got = s.iter().take(n).find(|byte| !matches!(**byte, b' ' | b'\t' | b'\n' | b'\r'));
		let is_ws = |b: u8| b == 0x20 || b == 0x09 || b == 0x0a || b == 0x0d;
		let mut j = 0;
		let mut first: Option<u8> = None;
		while j < len && j < n {
			if !is_ws(s[j]) {
				first = Some(s[j]);
				break;
			}
			j += 1;
		}
		assert!(got.copied() == first);
	}

	/// Rule D6, find-only variant (client reader): `s.iter().find(..)` is None exactly when every byte is whitespace.
	#[kani::proof]
	#[kani::unwind(12)]
	fn d6_find_chain() {
		const LEN: usize = 10;
		let data: [u8; LEN] = kani::any();
		let len: usize = kani::any();
		kani::assume(len <= LEN);
		let s = &data[..len];
		let got = s.iter().find(|b| !b.is_ascii_whitespace());
		let is_ws = |b: u8| b == b' ' || b == b'\t' || b == b'\n' || b == 0x0c || b == b'\r';
		let mut j = 0;
		let mut first: Option<u8> = None;
		while j < len {
			if !is_ws(s[j]) {
				first = Some(s[j]);
				break;
			}
			j += 1;
		}
		assert!(got.copied() == first);
	}
}
