// ---- foreign types of the async client (tokio channels, raw responses): opaque stand-ins ----
pub mod oneshot {
    use vstd::prelude::*;
    #[verifier::external_body] #[verifier::reject_recursive_types(T)]
    pub struct Sender<T> { _p: core::marker::PhantomData<T> }
}
#[verifier::external_body] pub struct RawResponseOwned { _p: u8 }
#[verifier::external_body] pub struct SubscriptionReceiver { _p: u8 }
#[verifier::external_body] pub struct SubscriptionSender { _p: u8 }
#[verifier::external_body] pub struct Error { _p: u8 }

// key model: derived Hash/Eq of jsonrpsee's id types, of Range<u64> and of String are structural and deterministic
#[verifier::external_body]
pub broadcast proof fn axiom_id_key_model()
    ensures #[trigger] vstd::std_specs::hash::obeys_key_model::<Id<'static>>(),
{}
#[verifier::external_body]
pub broadcast proof fn axiom_subid_key_model()
    ensures #[trigger] vstd::std_specs::hash::obeys_key_model::<SubscriptionId<'static>>(),
{}
#[verifier::external_body]
pub broadcast proof fn axiom_range_key_model()
    ensures #[trigger] vstd::std_specs::hash::obeys_key_model::<Range<u64>>(),
{}
// rule D8: the hasher is outside every contract
pub type FxHashMap<K, V> = HashMap<K, V>;
