// ---- foreign types of the async client (tokio channels, raw responses): opaque stand-ins ----
pub mod oneshot {
    use vstd::prelude::*;
    #[verifier::external_body] #[verifier::reject_recursive_types(T)]
    pub struct Sender<T> { _p: core::marker::PhantomData<T> }
    impl<T> Sender<T> {
        // tokio::sync::oneshot::Sender::send: consumes the sender; delivers `t` or hands it back.
        // The precondition is the permission encoding of "only the right value goes to the right channel".
        #[verifier::external_body]
        pub fn send(self, t: T) -> (r: Result<(), T>)
            requires super::may_deliver(self, t),
            ensures r is Err ==> r->Err_0 == t,
                // ghost event "this channel was answered with t" (an uninterpreted predicate: the ONLY way to learn it holds is
                // this postcondition, so a contract that claims it forces a send on every path)
                super::answered(self, t),
        { unimplemented!() }
        // observer: the receiving half was dropped (the caller gave up). Observing it changes nothing.
        pub uninterp spec fn rx_gone(&self) -> bool;
        #[verifier::external_body] pub fn is_closed(&self) -> (r: bool) ensures r == self.rx_gone() { unimplemented!() }
    }
}
#[verifier::external_body] pub struct SubscriptionReceiver { _p: u8 }
#[verifier::external_body] pub struct SubscriptionSender { _p: u8 }
#[verifier::external_body] pub struct BoxError { _p: u8 }
pub use std::sync::Arc;

// key model: derived Hash/Eq of jsonrpsee's id types, of Range<u64> and of String are structural and deterministic
#[verifier::external_body]
pub broadcast proof fn axiom_id_key_model()
    ensures #[trigger] vstd::std_specs::hash::obeys_key_model::<Id<'static>>(),
{}
#[verifier::external_body]
pub broadcast proof fn axiom_subid_key_model()
    ensures #[trigger] vstd::std_specs::hash::obeys_key_model::<SubscriptionId<'static>>(),
{}
#[verifier::external_body]
pub broadcast proof fn axiom_range_key_model()
    ensures #[trigger] vstd::std_specs::hash::obeys_key_model::<Range<u64>>(),
{}
// rule D8: the hasher is outside every contract
pub type FxHashMap<K, V> = HashMap<K, V>;

// ---- foreign: serde_json RawValue, http Extensions, jsonrpsee ErrorObject (opaque here) ----
#[verifier::external_body] pub struct RawValue { _p: u8 }
impl ToOwned for RawValue { type Owned = Box<RawValue>; #[verifier::external_body] fn to_owned(&self) -> Box<RawValue> { unimplemented!() } }
impl Clone for Box<RawValue> { #[verifier::external_body] fn clone(&self) -> (r: Self) ensures r == *self { unimplemented!() } }
impl RawValue {
    pub uninterp spec fn text(&self) -> Seq<char>;
    #[verifier::external_body] pub fn get(&self) -> (r: &str) ensures r@ == self.text() { unimplemented!() }
}
#[verifier::external_body] pub struct Extensions { _p: u8 }
impl Clone for Extensions { #[verifier::external_body] fn clone(&self) -> Self { unimplemented!() } }
// `Extensions::new()`: an empty extension map (http crate, ASSUMED)
pub uninterp spec fn ext_fresh(e: Extensions) -> bool;
impl Extensions { #[verifier::external_body] pub fn new() -> (r: Extensions) ensures ext_fresh(r) { unimplemented!() } }
#[verifier::external_body] pub struct ErrorObject<'a> { _p: core::marker::PhantomData<&'a u8> }
impl<'a> Clone for ErrorObject<'a> { #[verifier::external_body] fn clone(&self) -> Self { unimplemented!() } }
impl<'a> PartialEq for ErrorObject<'a> { #[verifier::external_body] fn eq(&self, o: &Self) -> bool { unimplemented!() } }
pub type ErrorObjectOwned = ErrorObject<'static>;
impl<'a> ErrorObject<'a> {
    pub uninterp spec fn owned(self) -> ErrorObjectOwned;
    #[verifier::external_body] pub fn into_owned(self) -> (r: ErrorObject<'static>) ensures r == self.owned() { unimplemented!() }
    pub uninterp spec fn is_placeholder(self) -> bool;
    // ErrorObject::borrowed(0, "", None): the placeholder used for unanswered batch entries
    #[verifier::external_body] pub fn borrowed(code: i32, message: &'a str, data: Option<&'a RawValue>) -> (r: ErrorObject<'a>)
        ensures code == 0 && data is None ==> r.is_placeholder() { unimplemented!() }
}
#[verifier::external_body] pub struct SerdeError { _p: u8 }
pub mod serde_json {
    use vstd::prelude::*;
    pub use super::SerdeError as Error;
    // result of parsing text `s` as a `T`: an uninterpreted, deterministic function of the input text
    pub uninterp spec fn parse<T>(s: Seq<char>) -> Result<T, Error>;
    #[verifier::external_body]
    pub fn from_str<'a, T>(s: &'a str) -> (r: Result<T, Error>) ensures r == parse::<T>(s@) { unimplemented!() }
    // serde_json::from_slice: same parser on bytes; from_str(s) is from_slice on the bytes of s
    pub uninterp spec fn parse_bytes<T>(b: Seq<u8>) -> Result<T, Error>;
    pub uninterp spec fn str_bytes(s: Seq<char>) -> Seq<u8>;
    #[verifier::external_body]
    pub fn from_slice<'a, T>(b: &'a [u8]) -> (r: Result<T, Error>) ensures r == parse_bytes::<T>(b@) { unimplemented!() }
    #[verifier::external_body]
    pub broadcast proof fn axiom_from_str_is_from_slice<T>(s: Seq<char>)
        ensures #[trigger] parse::<T>(s) == parse_bytes::<T>(str_bytes(s)),
    {}
    pub uninterp spec fn json_of<T>(v: T) -> Seq<char>;
    #[verifier::external_body]
    pub fn to_string<T>(v: &T) -> (r: Result<String, Error>) ensures r is Ok ==> r->Ok_0@ == json_of(*v) { unimplemented!() }
}
// completeness counterpart of the permission below: channel `s` was answered with `v`
pub uninterp spec fn answered<T>(s: oneshot::Sender<T>, v: T) -> bool;
// permission to deliver value `v` on one-shot channel `s` (see DESIGN.md §4: ghost events).
pub uninterp spec fn may_deliver<T>(s: oneshot::Sender<T>, v: T) -> bool;
// permission to offer message `m` to the buffer behind subscription sink `s` (ghost event `offered`)
pub uninterp spec fn may_offer(s: SubscriptionSender, m: Box<RawValue>) -> bool;
// whether the buffer behind sink `s` accepts `m` (false: the buffer is full — the consumer lags — or the stream was dropped)
pub uninterp spec fn offer_accepted(s: SubscriptionSender, m: Box<RawValue>) -> bool;
impl SubscriptionSender {
    // contract of the real `SubscriptionSender::send` (core/src/client/mod.rs); its body is verified in unit U05e
    #[verifier::external_body]
    pub fn send(&self, msg: Box<RawValue>) -> (r: Result<(), TrySubscriptionSendError>)
        requires may_offer(*self, msg),
        ensures r is Ok <==> offer_accepted(*self, msg),
    { unimplemented!() }
}

// ---- String-keyed tables (notification handlers): key model and borrowed-key lookups (ASSUMED; vstd ships them only for K == Q)
#[verifier::external_body]
pub broadcast proof fn axiom_string_key_model()
    ensures #[trigger] vstd::std_specs::hash::obeys_key_model::<String>(),
{}
#[verifier::external_body]
pub broadcast proof fn axiom_string_ext(a: String, b: String)
    ensures (#[trigger] a@ == #[trigger] b@) <==> a == b,
{}
#[verifier::external_body]
pub broadcast proof fn axiom_contains_string_key<V>(m: Map<String, V>, k: &str)
    ensures #[trigger] vstd::std_specs::hash::contains_borrowed_key::<String, V, str>(m, k) <==> (exists|key: String| key@ == k@ && m.contains_key(key)),
{}
#[verifier::external_body]
pub broadcast proof fn axiom_removed_string_key<V>(old: Map<String, V>, new: Map<String, V>, k: &str)
    ensures #[trigger] vstd::std_specs::hash::borrowed_key_removed::<String, V, str>(old, new, k)
        <==> (forall|key: String| #![trigger new.contains_key(key)] (new.contains_key(key) <==> (old.contains_key(key) && key@ != k@)) && (new.contains_key(key) ==> new[key] == old[key])),
{}
pub broadcast group group_string_keys { axiom_string_key_model, axiom_string_ext, axiom_contains_string_key, axiom_removed_string_key }
// Cow<str> helpers (rule D23: `c.to_string()` / deref of a `Cow<str>` are routed through these)
#[verifier::external_body]
pub fn cow_to_string<'a>(c: &Cow<'a, str>) -> (r: String) ensures r@ == cow_str_view(*c) { unimplemented!() }
#[verifier::external_body]
pub fn cow_as_str<'a, 'b>(c: &'b Cow<'a, str>) -> (r: &'b str) ensures r@ == cow_str_view(*c) { unimplemented!() }
pub uninterp spec fn cow_str_view<'a>(c: Cow<'a, str>) -> Seq<char>;
// the payload used for a notification without params (`Option::unwrap_or_default` on Box<RawValue>)
pub uninterp spec fn default_raw() -> Box<RawValue>;
#[verifier::external_body]
pub fn raw_or_default(o: Option<Box<RawValue>>) -> (r: Box<RawValue>) ensures r == (match o { Some(b) => b, None => default_raw() }) { unimplemented!() }
// `String::len`: the length in bytes of the UTF-8 encoding (std; vstd specifies `str::len` but not `String::len`)
pub assume_specification [String::len] (s: &String) -> (r: usize)
    ensures r as int == vstd::utf8::encode_utf8(s@).len();
