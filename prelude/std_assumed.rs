// ---- assumed contracts for std items vstd lacks (trusted; scanned into trusted_base) ----
pub assume_specification<T> [std::mem::replace] (dest: &mut T, src: T) -> (r: T)
    ensures r == *old(dest), *final(dest) == src;

pub assume_specification<T, U, F: FnOnce(T) -> U> [Option::<T>::map_or] (o: Option<T>, default: U, f: F) -> (r: U)
    requires o is Some ==> call_requires(f, (o->Some_0,)),
    ensures o is None ==> r == default, o is Some ==> call_ensures(f, (o->Some_0,), r);

// opaque diagnostic text (rule D3): message strings are outside every property
#[verifier::external_body]
pub fn verif_text() -> (s: String) { String::new() }

pub assume_specification<Idx: Clone> [<std::ops::Range<Idx> as Clone>::clone] (x: &std::ops::Range<Idx>) -> (r: std::ops::Range<Idx>)
    ensures r == *x;
pub assume_specification<T: Ord> [std::cmp::min] (a: T, b: T) -> (r: T)
    ensures r == a || r == b;
