// ---- assumed contracts for std items vstd lacks (trusted; scanned into trusted_base) ----
pub assume_specification<T> [std::mem::replace] (dest: &mut T, src: T) -> (r: T)
    ensures r == *old(dest), *final(dest) == src;

pub assume_specification<T, U, F: FnOnce(T) -> U> [Option::<T>::map_or] (o: Option<T>, default: U, f: F) -> (r: U)
    requires o is Some ==> call_requires(f, (o->Some_0,)),
    ensures o is None ==> r == default, o is Some ==> call_ensures(f, (o->Some_0,), r);

// opaque diagnostic text (rule D3): message strings are outside every property
#[verifier::external_body]
pub fn verif_text() -> (s: String) { String::new() }

pub assume_specification<Idx: Clone> [<std::ops::Range<Idx> as Clone>::clone] (x: &std::ops::Range<Idx>) -> (r: std::ops::Range<Idx>)
    ensures r == *x;
pub assume_specification<T: Ord> [std::cmp::min] (a: T, b: T) -> (r: T)
    ensures r == a || r == b;
// rule D25: while handling peer input, `Vec::with_capacity(n)` is routed through this stand-in: the requested capacity must
// be bounded by the length of an existing allocation (std aborts with "capacity overflow" for sizes above isize::MAX bytes;
// vstd's own specification of with_capacity has no such precondition)
pub uninterp spec fn safe_capacity(n: nat) -> bool;
#[verifier::external_body]
pub broadcast proof fn axiom_len_is_safe_capacity<U>(v: Vec<U>)
    ensures safe_capacity(#[trigger] v@.len()),
{}
#[verifier::external_body]
pub fn verif_with_capacity<T>(n: usize) -> (r: Vec<T>)
    requires safe_capacity(n as nat),
    ensures r@ == Seq::<T>::empty(),
{ Vec::with_capacity(n) }

// `String::truncate(n)` panics unless `n` is >= the length or lies on a char boundary (std, ASSUMED; the boundary predicate
// is vstd's, over the UTF-8 encoding; `str::is_char_boundary` is specified by vstd with the same predicate)
pub assume_specification [String::truncate] (s: &mut String, n: usize)
    requires n as int >= vstd::utf8::encode_utf8(old(s)@).len() || vstd::utf8::is_char_boundary(vstd::utf8::encode_utf8(old(s)@), n as int);
