// ---- foreign types of the server response path (serde_json, http::Extensions, std::io) ----------
#[verifier::external_body] pub struct RawValue { _p: u8 }
impl ToOwned for RawValue { type Owned = Box<RawValue>; #[verifier::external_body] fn to_owned(&self) -> Box<RawValue> { unimplemented!() } }
impl Clone for Box<RawValue> { #[verifier::external_body] fn clone(&self) -> (r: Self) ensures r.text() == self.text() { unimplemented!() } }
// valid JSON text (serde_json's grammar) — uninterpreted
pub uninterp spec fn valid_json(s: Seq<char>) -> bool;
impl RawValue {
    pub uninterp spec fn text(&self) -> Seq<char>;
    #[verifier::external_body] pub fn get(&self) -> (r: &str) ensures r@ == self.text() { unimplemented!() }
    // serde_json::value::RawValue::from_string: succeeds iff the text is valid JSON; keeps the text
    #[verifier::external_body]
    pub fn from_string(s: String) -> (r: Result<Box<RawValue>, serde_json::Error>)
        ensures valid_json(s@) <==> r is Ok, r is Ok ==> r->Ok_0.text() == s@,
    { unimplemented!() }
}
#[verifier::external_body] pub struct Extensions { _p: u8 }
impl Clone for Extensions { #[verifier::external_body] fn clone(&self) -> Self { unimplemented!() } }
impl Default for Extensions { #[verifier::external_body] fn default() -> Self { unimplemented!() } }
impl Extensions {
    pub uninterp spec fn spec_new() -> Extensions;
    #[verifier::external_body] pub fn new() -> (r: Extensions) ensures r == Extensions::spec_new() { unimplemented!() }
    #[verifier::external_body] pub fn extend(&mut self, other: Extensions) { unimplemented!() }
}
#[verifier::external_body] #[derive(Debug)] pub struct SerdeError { _p: u8 }
impl SerdeError {
    pub uninterp spec fn spec_is_io(&self) -> bool;
    #[verifier::external_body] pub fn is_io(&self) -> (r: bool) ensures r == self.spec_is_io() { unimplemented!() }
}
pub mod io {
    use vstd::prelude::*;
    #[verifier::external_body] pub struct Error { _p: u8 }
    pub enum ErrorKind { OutOfMemory, Other }
    impl Error { #[verifier::external_body] pub fn new(kind: ErrorKind, msg: &str) -> Error { unimplemented!() } }
    pub type Result<T> = core::result::Result<T, Error>;
}
// Length of a text as `String::len` / `str::len` report it.  vstd specifies `str::len` as the length of the view
// (it does not model the byte-vs-char distinction); the proofs below only use additivity of length over concatenation,
// which holds for UTF-8 byte length as well.  `String::len` is given the same (assumed) specification.
pub open spec fn utf8_len(s: Seq<char>) -> nat { s.len() }
pub assume_specification [String::len] (s: &String) -> (r: usize)
    ensures r == utf8_len(s@);
pub assume_specification [String::with_capacity] (n: usize) -> (r: String)
    ensures r@ == Seq::<char>::empty();
// rule D15: `E.len()` on a `&str` is routed through this stand-in (vstd's own str::len specification is not usable here)
#[verifier::external_body]
pub fn verif_str_len(s: &str) -> (r: usize) ensures r == utf8_len(s@) { s.len() }
