#!/bin/sh
# offline setup: build the replay probes against /repo (path dependencies) and warm Verus.
set -e
cd "$(dirname "$0")"
export CARGO_NET_OFFLINE=true
mkdir -p build evidence replays
cp /repo/Cargo.lock replay/Cargo.lock
( cd replay && RUSTFLAGS="--cfg jsonrpsee_verif" CARGO_TARGET_DIR=/verif/replay/target cargo build --release --offline --bins ) || echo "warning: replay probes did not build (replay will report it)"
printf 'use vstd::prelude::*;\nverus!{ proof fn warm() ensures true {} }\nfn main(){}\n' > build/warm.rs
verus build/warm.rs >/dev/null 2>&1 || true
cp /repo/Cargo.lock kani/Cargo.lock
( cd kani && CARGO_TARGET_DIR=/verif/kani/target timeout 1200 cargo kani --harness harnesses::error_code_int_kind_int --exact >/dev/null 2>&1 ) || echo "warning: kani warm-up failed"
echo setup done
