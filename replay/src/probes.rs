use jsonrpsee_types::error::ErrorCode;
use serde_json::{Value, json};

/// C15: int -> kind -> int and kind -> int -> kind over a family of interesting codes.
pub fn error_code_roundtrip() -> Value {
	let mut codes: Vec<i32> = vec![i32::MIN, i32::MAX, 0, 1, -1];
	for c in -32800..=-31900 {
		codes.push(c);
	}
	for c in codes {
		let k = ErrorCode::from(c);
		if k.code() != c {
			return json!({"probe":"error_code_roundtrip","disagrees":true,"input":format!("ErrorCode::from({c}).code()"),
				"observed": k.code(), "expected": c});
		}
	}
	let kinds = [
		ErrorCode::ParseError,
		ErrorCode::OversizedRequest,
		ErrorCode::InvalidRequest,
		ErrorCode::MethodNotFound,
		ErrorCode::ServerIsBusy,
		ErrorCode::InvalidParams,
		ErrorCode::InternalError,
	];
	for k in kinds {
		let back = ErrorCode::from(k.code());
		if back != k {
			return json!({"probe":"error_code_roundtrip","disagrees":true,"input":format!("ErrorCode::from({:?}.code())", k),
				"observed": format!("{:?}", back), "expected": format!("{:?}", k)});
		}
	}
	json!({"probe":"error_code_roundtrip","disagrees":false,"inputs_tried": 906 + 7})
}
