use jsonrpsee_types::error::ErrorCode;
use serde_json::{Value, json};

/// C15: int -> kind -> int and kind -> int -> kind over a family of interesting codes.
pub fn error_code_roundtrip() -> Value {
	let mut codes: Vec<i32> = vec![i32::MIN, i32::MAX, 0, 1, -1];
	for c in -32800..=-31900 {
		codes.push(c);
	}
	for c in codes {
		let k = ErrorCode::from(c);
		if k.code() != c {
			return json!({"probe":"error_code_roundtrip","disagrees":true,"input":format!("ErrorCode::from({c}).code()"),
				"observed": k.code(), "expected": c});
		}
	}
	let kinds = [
		ErrorCode::ParseError,
		ErrorCode::OversizedRequest,
		ErrorCode::InvalidRequest,
		ErrorCode::MethodNotFound,
		ErrorCode::ServerIsBusy,
		ErrorCode::InvalidParams,
		ErrorCode::InternalError,
	];
	for k in kinds {
		let back = ErrorCode::from(k.code());
		if back != k {
			return json!({"probe":"error_code_roundtrip","disagrees":true,"input":format!("ErrorCode::from({:?}.code())", k),
				"observed": format!("{:?}", back), "expected": format!("{:?}", k)});
		}
	}
	json!({"probe":"error_code_roundtrip","disagrees":false,"inputs_tried": 906 + 7})
}

// ------------------------------------------------------------------------------------------
// C18 / C03 / C05: histories through the REAL async client over an in-memory transport.
use crate::mock;
use jsonrpsee_core::client::async_client::ClientBuilder;
use jsonrpsee_core::client::{ClientT, Subscription, SubscriptionClientT};
use jsonrpsee_core::rpc_params;

fn rt() -> tokio::runtime::Runtime {
	tokio::runtime::Builder::new_multi_thread().worker_threads(2).enable_all().build().unwrap()
}

fn id_of(msg: &str) -> Value {
	serde_json::from_str::<Value>(msg).unwrap()["id"].clone()
}

/// C18: after every subscription has ended and been acknowledged the tables are empty.
pub fn client_tables_return_to_empty() -> Value {
	rt().block_on(async {
		let mut failures = Vec::new();
		// H1: subscribe, accept, drop by the application, unsubscribe acknowledged
		{
			let (c, mut peer) = mock::client(ClientBuilder::default());
			let fut = c.subscribe::<u64, _>("sub", rpc_params![], "unsub");
			let h = tokio::spawn(async move {
				let req = peer.next().await.unwrap();
				peer.send(&json!({"jsonrpc":"2.0","id":id_of(&req),"result":"S1"}).to_string());
				// the application drops the stream => client sends the unsubscribe
				let unsub = peer.next().await;
				if let Some(u) = &unsub {
					peer.send(&json!({"jsonrpc":"2.0","id":id_of(u),"result":true}).to_string());
				}
				(peer, unsub)
			});
			let sub: Subscription<u64> = fut.await.unwrap();
			drop(sub);
			let (_peer, unsub) = h.await.unwrap();
			mock::settle().await;
			let sizes = c.verif_table_sizes();
			if sizes != (0, 0, 0, 0) {
				failures.push(json!({"history":"subscribe; accepted 'S1'; application drops stream; unsubscribe acknowledged",
					"unsubscribe_sent": unsub, "table_sizes(requests,subscriptions,batches,handlers)": format!("{:?}", sizes)}));
			}
		}
		// H2: subscribe, accept, server closes the subscription with an error notification
		{
			let (c, mut peer) = mock::client(ClientBuilder::default());
			let fut = c.subscribe::<u64, _>("sub", rpc_params![], "unsub");
			let h = tokio::spawn(async move {
				let req = peer.next().await.unwrap();
				peer.send(&json!({"jsonrpc":"2.0","id":id_of(&req),"result":"S1"}).to_string());
				peer
			});
			let mut sub: Subscription<u64> = fut.await.unwrap();
			let peer = h.await.unwrap();
			peer.send(&json!({"jsonrpc":"2.0","method":"sub","params":{"subscription":"S1","error":"closed"}}).to_string());
			let _ = tokio::time::timeout(std::time::Duration::from_secs(2), sub.next()).await;
			mock::settle().await;
			drop(sub);
			mock::settle().await;
			let sizes = c.verif_table_sizes();
			if sizes != (0, 0, 0, 0) {
				failures.push(json!({"history":"subscribe; accepted 'S1'; server sends close notification for 'S1'",
					"table_sizes(requests,subscriptions,batches,handlers)": format!("{:?}", sizes)}));
			}
			drop(peer);
		}
		// H3: subscribe refused with an error response;  H4: accepted with something that is not a subscription id
		for (name, reply) in [("refused with error response", json!({"error":{"code":-32000,"message":"no"}})), ("answered with a result that is not a subscription id", json!({"result":{"x":1}}))] {
			let (c, mut peer) = mock::client(ClientBuilder::default());
			let fut = c.subscribe::<u64, _>("sub", rpc_params![], "unsub");
			let h = tokio::spawn(async move {
				let req = peer.next().await.unwrap();
				let mut r = reply.clone();
				r["jsonrpc"] = json!("2.0");
				r["id"] = id_of(&req);
				peer.send(&r.to_string());
				peer
			});
			let res = fut.await;
			let _peer = h.await.unwrap();
			mock::settle().await;
			let sizes = c.verif_table_sizes();
			if res.is_ok() || sizes != (0, 0, 0, 0) {
				failures.push(json!({"history": format!("subscribe; {}", name), "subscribe_ok": res.is_ok(),
					"table_sizes(requests,subscriptions,batches,handlers)": format!("{:?}", sizes)}));
			}
		}
		// H5: plain call answered
		{
			let (c, mut peer) = mock::client(ClientBuilder::default());
			let fut = c.request::<u64, _>("m", rpc_params![]);
			let h = tokio::spawn(async move {
				let req = peer.next().await.unwrap();
				peer.send(&json!({"jsonrpc":"2.0","id":id_of(&req),"result":7}).to_string());
				peer
			});
			let r = fut.await;
			let _peer = h.await.unwrap();
			mock::settle().await;
			let sizes = c.verif_table_sizes();
			if r.ok() != Some(7) || sizes != (0, 0, 0, 0) {
				failures.push(json!({"history":"call; answered", "table_sizes": format!("{:?}", sizes)}));
			}
		}
		// H6: the application drops the stream while the send task is busy inside the transport (the closure request waits in the
		// queue); the server closes the subscription on its own; then the send task resumes. No unsubscribe is due any more and
		// nothing may be left — in particular not the slot reserved for the unsubscribe call
		{
			let (c, mut peer, gate, mut entered) = mock::gated_client(ClientBuilder::default().request_timeout(std::time::Duration::from_secs(5)));
			let c = std::sync::Arc::new(c);
			let fut = c.subscribe::<u64, _>("sub", rpc_params![], "unsub");
			let h = tokio::spawn(async move {
				let req = peer.next().await.unwrap();
				peer.send(&json!({"jsonrpc":"2.0","id":id_of(&req),"result":"S6"}).to_string());
				peer
			});
			let sub: Subscription<u64> = fut.await.unwrap();
			let mut peer = h.await.unwrap();
			let c2 = c.clone();
			let call = tokio::spawn(async move { c2.request::<u64, _>("block", rpc_params![]).await.ok() });
			let _ = tokio::time::timeout(std::time::Duration::from_secs(3), entered.recv()).await;
			drop(sub);
			mock::settle().await;
			peer.send(&json!({"jsonrpc":"2.0","method":"sub","params":{"subscription":"S6","error":"closed"}}).to_string());
			mock::settle().await;
			gate.notify_one();
			let mut unsub_seen = None;
			for _ in 0..2 {
				if let Some(m) = peer.next().await {
					if m.contains("\"block\"") { peer.send(&json!({"jsonrpc":"2.0","id":id_of(&m),"result":7}).to_string()); break; } else { unsub_seen = Some(m); }
				}
			}
			let answered = tokio::time::timeout(std::time::Duration::from_secs(3), call).await.ok().and_then(|r| r.ok()).flatten();
			mock::settle().await;
			let sizes = c.verif_table_sizes();
			if answered != Some(7) || sizes != (0, 0, 0, 0) || unsub_seen.is_some() {
				failures.push(json!({"history":"subscribe; accepted 'S6'; send task busy in the transport; application drops stream; server closes 'S6'; send task resumes",
					"call_answered": answered, "unsubscribe_sent": unsub_seen, "table_sizes(requests,subscriptions,batches,handlers)": format!("{:?}", sizes)}));
			}
		}
		// H7: the caller gives up (request timeout) before the server accepts; the late acceptance must be answered with an unsubscribe
		// call, and once that is acknowledged the slot reserved for it is gone (what may remain is the placeholder under the SUBSCRIBE
		// id: the recorded finding of H1, not counted again here)
		{
			let (c, mut peer) = mock::client(ClientBuilder::default().request_timeout(std::time::Duration::from_millis(60)));
			let r = c.subscribe::<u64, _>("sub", rpc_params![], "unsub").await;
			let req = peer.next().await.unwrap();
			peer.send(&json!({"jsonrpc":"2.0","id":id_of(&req),"result":"S7"}).to_string());
			let unsub = peer.next().await;
			if let Some(u) = &unsub {
				peer.send(&json!({"jsonrpc":"2.0","id":id_of(u),"result":true}).to_string());
			}
			mock::settle().await;
			let sizes = c.verif_table_sizes();
			let names_s7 = unsub.as_ref().map_or(false, |u| u.contains("\"unsub\"") && u.contains("S7"));
			if r.is_ok() || !names_s7 || sizes.0 > 1 || (sizes.1, sizes.2, sizes.3) != (0, 0, 0) {
				failures.push(json!({"history":"subscribe; the caller times out; the server accepts 'S7' afterwards", "subscribe_ok": r.is_ok(),
					"unsubscribe_sent": unsub, "table_sizes(requests,subscriptions,batches,handlers)": format!("{:?}", sizes)}));
			}
		}
		if failures.is_empty() {
			json!({"probe":"client_tables_return_to_empty","disagrees":false,"histories_tried":7})
		} else {
			json!({"probe":"client_tables_return_to_empty","disagrees":true,"input":failures,"expected":"all four tables empty: (0, 0, 0, 0)",
				"observed": "residual entries (see input[*].table_sizes)"})
		}
	})
}

/// C03: k concurrent calls answered in every permutation, plus a duplicate and an unknown id.
pub fn client_call_routing() -> Value {
	rt().block_on(async {
		let perms: [[usize; 3]; 6] = [[0, 1, 2], [0, 2, 1], [1, 0, 2], [1, 2, 0], [2, 0, 1], [2, 1, 0]];
		for perm in perms {
			let (c, mut peer) = mock::client(ClientBuilder::default());
			let c = std::sync::Arc::new(c);
			let mut futs = Vec::new();
			for k in 0..3u64 {
				let c2 = c.clone();
				futs.push(tokio::spawn(async move { c2.request::<String, _>("echo", rpc_params![k]).await }));
			}
			let mut reqs = Vec::new();
			for _ in 0..3 {
				let m = peer.next().await.unwrap();
				let v: Value = serde_json::from_str(&m).unwrap();
				reqs.push((v["id"].clone(), v["params"][0].as_u64().unwrap()));
			}
			// answer in the permuted order; result names the request's own param
			for &p in &perm {
				let (id, k) = &reqs[p];
				peer.send(&json!({"jsonrpc":"2.0","id":id,"result":format!("answer-for-{k}")}).to_string());
			}
			for (k, f) in futs.into_iter().enumerate() {
				let r = tokio::time::timeout(std::time::Duration::from_secs(3), f).await;
				let got = match r { Ok(Ok(Ok(s))) => s, other => format!("{:?}", other.map(|x| x.map(|y| y.map_err(|e| e.to_string())))) };
				if got != format!("answer-for-{k}") {
					return json!({"probe":"client_call_routing","disagrees":true,
						"input": format!("3 concurrent calls, responses sent in order {:?}", perm),
						"observed": format!("call {k} completed with {got}"), "expected": format!("answer-for-{k}")});
				}
			}
		}
		// a response whose id matches nothing pending completes no call (the client abandons the connection)
		{
			let (c, mut peer) = mock::client(ClientBuilder::default());
			let c = std::sync::Arc::new(c);
			let c2 = c.clone();
			let f = tokio::spawn(async move { c2.request::<String, _>("echo", rpc_params![1]).await });
			let m = peer.next().await.unwrap();
			let _id = id_of(&m);
			peer.send(&json!({"jsonrpc":"2.0","id":424242,"result":"stray"}).to_string());
			let r = tokio::time::timeout(std::time::Duration::from_secs(3), f).await;
			if let Ok(Ok(Ok(s))) = &r {
				return json!({"probe":"client_call_routing","disagrees":true,"input":"one pending call; response with unknown id 424242",
					"observed": format!("the pending call completed with {s}"), "expected":"no call completes with that response"});
			}
		}
		json!({"probe":"client_call_routing","disagrees":false,"histories_tried":7})
	})
}

use jsonrpsee_core::params::BatchRequestBuilder;

/// C12 (async/WS client): reply sequences over ids around a batch of n = 3 (all sequences of length 2 and 3 over
/// ids start-1..=start+3) and n = 4 (all sequences of length 4 over the in-range ids).
/// Oracle: a successful call returns exactly n entries; entry i is Ok(v) only if v is the value some reply carried under
/// id start+i; success/failure counts match the entries.
// reply ids that are strings no number spelling: an element carrying one belongs to NO entry of any batch
const FOREIGN_IDS: [&str; 8] = ["", " ", "0x0", "0.0", "-0", "0 ", " 0", "zero"];
async fn batch_case(n: usize, rel: Vec<i64>) -> Option<Value> { batch_case2(n, rel, true, jsonrpsee_core::client::IdKind::Number).await }
async fn batch_case2(n: usize, rel: Vec<i64>, warm: bool, kind: jsonrpsee_core::client::IdKind) -> Option<Value> {
	let (c, mut peer) = mock::client(ClientBuilder::default().id_format(kind).request_timeout(std::time::Duration::from_millis(400)));
	if warm {
		let w = c.request::<u64, _>("warm", rpc_params![]);
		let hw = tokio::spawn(async move {
			let req = peer.next().await.unwrap();
			peer.send(&json!({"jsonrpc":"2.0","id":id_of(&req),"result":1}).to_string());
			peer
		});
		let _ = w.await;
		peer = hw.await.unwrap();
	}
	let mut b = BatchRequestBuilder::new();
	for k in 0..n {
		b.insert("m", rpc_params![k]).unwrap();
	}
	let fut = c.batch_request::<String>(b);
	let rel2 = rel.clone();
	let h = tokio::spawn(async move {
		let req = peer.next().await.unwrap();
		let arr: Vec<Value> = serde_json::from_str(&req).unwrap();
		let start = arr[0]["id"].as_u64().or_else(|| arr[0]["id"].as_str().and_then(|s| s.parse().ok())).unwrap() as i64;
		let as_str = arr[0]["id"].is_string();
		let mut out = Vec::new();
		for (pos, r) in rel2.iter().enumerate() {
			if *r >= 100 {
				// an element whose id is a string that spells no number
				out.push(json!({"jsonrpc":"2.0","id":FOREIGN_IDS[(*r - 100) as usize],"result":"foreign"}));
				continue;
			}
			if *r == 99 {
				// a plain notification sharing the array with the batch's answers
				out.push(json!({"jsonrpc":"2.0","method":"unrelated_notification","params":[pos]}));
				continue;
			}
			let id = start + r;
			if as_str { out.push(json!({"jsonrpc":"2.0","id":id.to_string(),"result":format!("id{}#pos{}", id, pos)})); } else {
			out.push(json!({"jsonrpc":"2.0","id":id,"result":format!("id{}#pos{}", id, pos)})); }
		}
		peer.send(&Value::Array(out).to_string());
		(peer, start)
	});
	let res = fut.await;
	let (_peer, start) = h.await.unwrap();
	{
		// every entry answered exactly once under its own id (in any order, whatever else shares the array): the call succeeds
		let mut ids: Vec<i64> = rel.iter().cloned().filter(|r| *r != 99).collect();
		if ids.iter().any(|r| *r >= 100) { ids.clear(); }
		ids.sort();
		if ids == (0..n as i64).collect::<Vec<_>>() && res.is_err() {
			return Some(json!({"probe":"client_batch_positional","disagrees":true,
				"input": format!("batch of {n} (ids {start}..{}), reply elements (ids relative to start; 99 = an unrelated notification) {:?}", start + n as i64, rel),
				"observed": format!("the batch call failed: {}", res.err().map(|e| e.to_string()).unwrap_or_default()), "expected":"Ok with n entries (every entry was answered under its own id)"}));
		}
	}
	if let Ok(br) = res {
		let ok = br.num_successful_calls();
		let failed = br.num_failed_calls();
		let entries: Vec<Result<String, String>> = br.into_iter().map(|e| e.map_err(|e| e.message().to_string())).collect();
		let mut bad = None;
		if entries.len() != n {
			bad = Some(format!("returned {} entries for a batch of {}", entries.len(), n));
		}
		for (i, e) in entries.iter().enumerate() {
			if let Ok(v) = e {
				let want = format!("id{}#", start + i as i64);
				if !v.starts_with(&want) {
					bad = Some(format!("entry {i} holds {v:?}, which was sent under another id"));
				}
			}
		}
		let n_ok = entries.iter().filter(|e| e.is_ok()).count();
		if ok != n_ok || failed != entries.len() - n_ok {
			bad = Some(format!("counts ({ok} ok, {failed} failed) do not match entries {entries:?}"));
		}
		if let Some(why) = bad {
			return Some(json!({"probe":"client_batch_positional","disagrees":true,
				"input": format!("batch of {n} (ids {start}..{}), reply ids (relative to start) {:?}", start + n as i64, rel),
				"observed": why, "expected":"n entries, entry i filled only by the reply with id start+i, counts matching"}));
		}
	}
	None
}

pub fn client_batch_positional() -> Value {
	tokio::runtime::Builder::new_multi_thread().worker_threads(12).enable_all().build().unwrap().block_on(async {
		let mut cases: Vec<(usize, Vec<i64>)> = Vec::new();
		for len in [2usize, 3] {
			let width = 5usize; // relative ids -1..=3
			for code in 0..width.pow(len as u32) {
				let mut c = code;
				let mut rel = Vec::new();
				for _ in 0..len {
					rel.push((c % width) as i64 - 1);
					c /= width;
				}
				cases.push((3, rel));
			}
		}
		for code in 0..4usize.pow(4) {
			let mut c = code;
			let mut rel = Vec::new();
			for _ in 0..4 {
				rel.push((c % 4) as i64);
				c /= 4;
			}
			cases.push((4, rel));
		}
		for with_notif in [vec![99i64, 0, 1, 2], vec![0, 99, 1, 2], vec![2, 1, 0, 99], vec![1, 99, 99, 0, 2]] {
			cases.push((3, with_notif));
		}
		// elements with ids that spell no number, before / between / after the real answers; first batch of a fresh client
		// (ids from 0) and later batches; both id kinds
		let mut total = cases.len();
		for k in 0..FOREIGN_IDS.len() as i64 {
			for rel in [vec![0, 100 + k, 1], vec![100 + k, 0, 1], vec![0, 1, 100 + k], vec![100 + k, 1]] {
				for warm in [false, true] {
					for kind in [jsonrpsee_core::client::IdKind::Number, jsonrpsee_core::client::IdKind::String] {
						total += 1;
						if let Some(v) = batch_case2(2, rel.clone(), warm, kind).await { return v; }
					}
				}
			}
		}
		for chunk in cases.chunks(64) {
			let hs: Vec<_> = chunk.iter().cloned().map(|(n, rel)| tokio::spawn(batch_case(n, rel))).collect();
			for h in hs {
				if let Ok(Some(v)) = h.await {
					return v;
				}
			}
		}
		json!({"probe":"client_batch_positional","disagrees":false,"reply_sequences_tried":total,
			"bound":"n=3: all reply sequences of length 2,3 over ids start-1..=start+3; n=4: all sequences of length 4 over in-range ids; 4 complete replies sharing the array with notifications; 8 non-numeric string ids x 4 placements x first/later batch x both id kinds"})
	})
}

// ------------------------------------------------------------------------------------------
use jsonrpsee_core::server::{BatchResponseBuilder, MethodResponse, ResponsePayload};
use jsonrpsee_types::Id;

/// C08: sweep single results and batches around the limit through the real MethodResponse / BatchResponseBuilder.
pub fn response_size_limit() -> Value {
	let mut tried = 0u64;
	// single results (success and error-with-data) of every size around the limit
	for limit in [60usize, 100, 150] {
		for pad in 0..(limit + 8) {
			let s = "x".repeat(pad);
			for as_error in [false, true] {
				tried += 1;
				let unbounded = if as_error {
					MethodResponse::response(Id::Number(7), ResponsePayload::<()>::error(jsonrpsee_types::ErrorObject::owned(-32000, "e", Some(s.clone()))), usize::MAX)
				} else {
					MethodResponse::response(Id::Number(7), ResponsePayload::success(s.clone()), usize::MAX)
				};
				let bounded = if as_error {
					MethodResponse::response(Id::Number(7), ResponsePayload::<()>::error(jsonrpsee_types::ErrorObject::owned(-32000, "e", Some(s.clone()))), limit)
				} else {
					MethodResponse::response(Id::Number(7), ResponsePayload::success(s.clone()), limit)
				};
				let full = unbounded.as_json().get().to_string();
				let got = bounded.as_json().get().to_string();
				let v: Value = serde_json::from_str(&got).unwrap();
				if full.len() <= limit {
					if got != full {
						return json!({"probe":"response_size_limit","disagrees":true,"input":format!("single {} of {} bytes, limit {}", if as_error {"error"} else {"result"}, full.len(), limit),
							"observed": got, "expected": full});
					}
				} else if got.len() > limit && v["error"]["code"] != json!(-32008) {
					return json!({"probe":"response_size_limit","disagrees":true,"input":format!("single {} of {} bytes, limit {}", if as_error {"error"} else {"result"}, full.len(), limit),
						"observed": format!("{} bytes sent: {}", got.len(), got), "expected":"error -32008 carrying id 7"});
				} else if full.len() > limit && (v["error"]["code"] != json!(-32008) || v["id"] != json!(7)) {
					return json!({"probe":"response_size_limit","disagrees":true,"input":format!("single {} of {} bytes, limit {}", if as_error {"error"} else {"result"}, full.len(), limit),
						"observed": got, "expected":"error -32008 carrying id 7"});
				}
			}
		}
	}
	// batches of 1..4 entries with the finished array from limit-3 to limit+3
	for limit in [120usize, 200] {
		for n in 1usize..=4 {
			for total in (limit - 3)..=(limit + 3) {
				// entries: {"jsonrpc":"2.0","id":1,"result":"<pad>"} ; array = 1 + sum(len) + (n-1) + 1
				let base = MethodResponse::response(Id::Number(1), ResponsePayload::success(String::new()), usize::MAX).as_json().get().len();
				let fixed = 2 + (n - 1) + n * base;
				if total < fixed {
					continue;
				}
				let extra = total - fixed;
				tried += 1;
				let mut b = BatchResponseBuilder::new_with_limit(limit);
				let mut rejected = None;
				for k in 0..n {
					let pad = if k == 0 { extra } else { 0 };
					let rp = MethodResponse::response(Id::Number(1), ResponsePayload::success("y".repeat(pad)), usize::MAX);
					if let Err(e) = b.append(rp) {
						rejected = Some(e.as_json().get().to_string());
						break;
					}
				}
				match rejected {
					Some(err) => {
						let v: Value = serde_json::from_str(&err).unwrap();
						if total <= limit || v["error"]["code"] != json!(-32011) {
							return json!({"probe":"response_size_limit","disagrees":true,"input":format!("batch of {n} entries, finished array {total} bytes, limit {limit}"),
								"observed": format!("rejected with {err}"), "expected": if total <= limit {"array sent unchanged"} else {"error -32011"}});
						}
					}
					None => {
						let out = MethodResponse::from_batch(b.finish());
						let len = out.as_json().get().len();
						if total > limit || len != total {
							return json!({"probe":"response_size_limit","disagrees":true,"input":format!("batch of {n} entries, finished array {total} bytes, limit {limit}"),
								"observed": format!("array of {len} bytes was accepted"), "expected": if total > limit {"error -32011"} else {"array of exactly the computed length"}});
						}
					}
				}
			}
		}
	}
	// end to end (in-process tower service, HTTP): the response limit concerns RESPONSES only — entries that produce no reply
	// (notifications) never count against it — and a call inside a batch is answered as it is answered alone, or the whole
	// batch is answered by the single -32011 error
	if let Some(v) = rt().block_on(async {
		let call = |id: u64, n: usize| json!({"jsonrpc":"2.0","id":id,"method":"echo","params":["z".repeat(n)]});
		let notif = json!({"jsonrpc":"2.0","method":"add","params":[1]});
		for limit in [100u32, 160, 260] {
			for notifs in [0usize, 1, 3, 8, 40] {
				for pads in [vec![0usize], vec![0, 0], vec![10, 0], vec![0, (limit as usize).saturating_sub(60)], vec![(limit as usize).saturating_sub(60), 0], vec![30, 30, 30]] {
					let cfg = || jsonrpsee_server::ServerConfig::builder().max_response_body_size(limit).build();
					let mut entries: Vec<Value> = Vec::new();
					for k in 0..notifs { if k % 2 == 0 { entries.push(notif.clone()) } }
					for (i, p) in pads.iter().enumerate() { entries.push(call(i as u64 + 1, *p)); }
					for k in 0..notifs { if k % 2 == 1 { entries.push(notif.clone()) } }
					let (_s, body) = post_in_process(cfg(), &Value::Array(entries).to_string()).await;
					let mut alone: Vec<Value> = Vec::new();
					for (i, p) in pads.iter().enumerate() {
						let (_s, b) = post_in_process(cfg(), &call(i as u64 + 1, *p).to_string()).await;
						alone.push(serde_json::from_str(&b).unwrap_or(Value::Null));
					}
					let want_array = Value::Array(alone.clone());
					let want_len = want_array.to_string().len();
					let got: Value = serde_json::from_str(&body).unwrap_or(json!({"unparsable": body}));
					let desc = format!("HTTP batch, response limit {limit}: {notifs} notifications around calls with payload sizes {pads:?}");
					if want_len <= limit as usize {
						if got != want_array {
							return Some(json!({"probe":"response_size_limit","disagrees":true,"input":desc,"observed":body,"expected":format!("the array of the replies each call gets alone ({want_len} bytes, fits): {want_array}")}));
						}
					} else if !(got["error"]["code"] == json!(-32011) && got["id"].is_null()) {
						return Some(json!({"probe":"response_size_limit","disagrees":true,"input":desc,"observed":body,"expected":"the single error -32011 with id null (the array of the stand-alone replies does not fit)"}));
					}
					if body.len() > limit as usize && got["error"]["code"] != json!(-32011) {
						return Some(json!({"probe":"response_size_limit","disagrees":true,"input":desc,"observed":format!("{} bytes sent", body.len()),"expected":"nothing above the limit except the fixed error object"}));
					}
				}
			}
			// a batch of notifications only gets no reply, however many there are
			let only: Vec<Value> = (0..50).map(|_| notif.clone()).collect();
			let (_s, body) = post_in_process(jsonrpsee_server::ServerConfig::builder().max_response_body_size(limit).build(), &Value::Array(only).to_string()).await;
			if !(body.trim().is_empty() || body.trim() == "null") {
				return Some(json!({"probe":"response_size_limit","disagrees":true,"input":format!("HTTP batch of 50 notifications, response limit {limit}"),"observed":body,"expected":"no reply"}));
			}
		}
		None
	}) { return v; }
	tried += 3 * 5 * 6 + 3;
	json!({"probe":"response_size_limit","disagrees":false,"inputs_tried":tried,"bound":"limits {60,100,150} x every payload size 0..limit+8 (result and error-with-data); batches of 1..4 entries with finished length limit-3..limit+3; end to end over HTTP: limits {100,160,260} x {0,1,3,8,40} notifications x 6 call-size patterns (batch reply = stand-alone replies or the single -32011), 50 notifications alone"})
}

// ------------------------------------------------------------------------------------------
use jsonrpsee_core::params::{ArrayParams, ObjectParams};
use jsonrpsee_core::traits::ToRpcParams;

struct FailAfter(usize);
impl serde::Serialize for FailAfter {
	fn serialize<S: serde::Serializer>(&self, s: S) -> Result<S::Ok, S::Error> {
		use serde::ser::SerializeSeq;
		let mut seq = s.serialize_seq(None)?;
		for k in 0..self.0 {
			seq.serialize_element(&k)?;
		}
		Err(serde::ser::Error::custom("fails midway"))
	}
}

/// C20: sequences of good / failing inserts, then build: never a panic, always valid JSON that parses back to the good values in order.
pub fn params_builder_failed_insert() -> Value {
	let mut tried = 0u64;
	// ops: 0 = good value, 1 = fails before writing, 2 = fails after writing "[0,1"
	for len in 1..=4u32 {
		for code in 0..3u32.pow(len) {
			let mut ops = Vec::new();
			let mut c = code;
			for _ in 0..len {
				ops.push(c % 3);
				c /= 3;
			}
			for named in [false, true] {
				tried += 1;
				let ops2 = ops.clone();
				let res = std::panic::catch_unwind(move || {
					let mut good: Vec<u64> = Vec::new();
					let out = if named {
						let mut b = ObjectParams::new();
						for (i, op) in ops2.iter().enumerate() {
							let key = format!("k{i}");
							let r = match op {
								0 => b.insert(&key, i as u64),
								1 => b.insert(&key, FailAfter(0)),
								_ => b.insert(&key, FailAfter(2)),
							};
							if r.is_ok() {
								good.push(i as u64);
							}
						}
						b.to_rpc_params()
					} else {
						let mut b = ArrayParams::new();
						for (i, op) in ops2.iter().enumerate() {
							let r = match op {
								0 => b.insert(i as u64),
								1 => b.insert(FailAfter(0)),
								_ => b.insert(FailAfter(2)),
							};
							if r.is_ok() {
								good.push(i as u64);
							}
						}
						b.to_rpc_params()
					};
					(good, out.map(|o| o.map(|r| r.get().to_string())).map_err(|e| e.to_string()))
				});
				let desc = format!("{} builder, inserts {:?} (0 = ok, 1 = Serialize fails at once, 2 = Serialize fails after writing part of the value), then build", if named {"named"} else {"positional"}, ops);
				match res {
					Err(_) => return json!({"probe":"params_builder_failed_insert","disagrees":true,"input":desc,"observed":"to_rpc_params() panicked","expected":"valid JSON for the values inserted successfully"}),
					// nothing was inserted successfully: the builder is empty, which means "no params"
					Ok((good, Ok(None))) if good.is_empty() => {}
					Ok((good, Ok(Some(txt)))) if good.is_empty() => {
						return json!({"probe":"params_builder_failed_insert","disagrees":true,"input":desc,"observed":format!("Some({txt})"),"expected":"None: no value was inserted, an empty builder means 'no params'"});
					}
					Ok((good, Ok(Some(txt)))) => {
						let parsed: Result<Value, _> = serde_json::from_str(&txt);
						let want: Value = if named { Value::Object(good.iter().map(|i| (format!("k{i}"), json!(i))).collect()) } else { json!(good) };
						if parsed.as_ref().ok() != Some(&want) {
							return json!({"probe":"params_builder_failed_insert","disagrees":true,"input":desc,"observed":txt,"expected":want.to_string()});
						}
					}
					Ok((good, other)) => {
						return json!({"probe":"params_builder_failed_insert","disagrees":true,"input":desc,"observed":format!("{:?}", other),"expected":format!("Some(json of {:?})", good)});
					}
				}
			}
		}
	}
	json!({"probe":"params_builder_failed_insert","disagrees":false,"inputs_tried":tried,"bound":"all sequences of 1..4 inserts over {ok, fails-at-once, fails-midway}, positional and named"})
}

/// C20: builders emit JSON that parses back to what was inserted (keys and string values over a set of awkward texts).
pub fn params_builder_roundtrip() -> Value {
	let texts: Vec<String> = vec![
		"plain".into(), "".into(), "with\"quote".into(), "back\\slash".into(), "tab\there".into(), "nl\nhere".into(),
		"\u{1}ctl".into(), "\u{1f}".into(), "uni-\u{e9}\u{4e2d}".into(), "\u{7f}del".into(), "a/b".into(), "{[,:]}".into(),
	];
	let mut tried = 0u64;
	for a in &texts {
		for b in &texts {
			tried += 1;
			let (a2, b2) = (a.clone(), b.clone());
			let res = std::panic::catch_unwind(move || {
				let mut arr = ArrayParams::new();
				arr.insert(a2.clone()).unwrap();
				arr.insert(7u64).unwrap();
				arr.insert(b2.clone()).unwrap();
				let arr_txt = arr.to_rpc_params().unwrap().unwrap().get().to_string();
				let mut obj = ObjectParams::new();
				obj.insert(&a2, b2.clone()).unwrap();
				if a2 != b2 {
					obj.insert(&b2, 7u64).unwrap();
				}
				let obj_txt = obj.to_rpc_params().unwrap().unwrap().get().to_string();
				(arr_txt, obj_txt)
			});
			let desc = format!("texts a={:?} b={:?}: ArrayParams [a, 7, b]; ObjectParams {{a: b, b: 7}}", a, b);
			match res {
				Err(_) => return json!({"probe":"params_builder_roundtrip","disagrees":true,"input":desc,"observed":"panic while building","expected":"valid JSON"}),
				Ok((arr_txt, obj_txt)) => {
					let want_arr = json!([a, 7, b]);
					let mut m = serde_json::Map::new();
					m.insert(a.clone(), json!(b));
					if a != b {
						m.insert(b.clone(), json!(7));
					}
					let want_obj = Value::Object(m);
					if serde_json::from_str::<Value>(&arr_txt).ok() != Some(want_arr.clone()) {
						return json!({"probe":"params_builder_roundtrip","disagrees":true,"input":desc,"observed":arr_txt,"expected":want_arr.to_string()});
					}
					if serde_json::from_str::<Value>(&obj_txt).ok() != Some(want_obj.clone()) {
						return json!({"probe":"params_builder_roundtrip","disagrees":true,"input":desc,"observed":obj_txt,"expected":want_obj.to_string()});
					}
				}
			}
		}
	}
	// tuples of every implemented arity (macro-generated impls) and the rpc_params! macro: the i-th value stays the i-th
	{
		use jsonrpsee_core::traits::ToRpcParams;
		fn txt<P: ToRpcParams>(p: P) -> String { match std::panic::catch_unwind(std::panic::AssertUnwindSafe(|| p.to_rpc_params())) { Ok(Ok(Some(r))) => r.get().to_string(), Ok(Ok(None)) => "<none>".into(), Ok(Err(e)) => format!("<error {e}>"), Err(_) => "<panic>".into() } }
		let v: Vec<u64> = (100..116).collect();
		let s: Vec<String> = (0..16).map(|i| format!("s\"{i}")).collect();
		let got: Vec<String> = vec![
			txt((v[0],)), txt((v[0], &s[1])), txt((v[0], &s[1], v[2])), txt((v[0], &s[1], v[2], &s[3])), txt((v[0], &s[1], v[2], &s[3], v[4])),
			txt((v[0], &s[1], v[2], &s[3], v[4], &s[5])), txt((v[0], &s[1], v[2], &s[3], v[4], &s[5], v[6])), txt((v[0], &s[1], v[2], &s[3], v[4], &s[5], v[6], &s[7])),
			txt((v[0], &s[1], v[2], &s[3], v[4], &s[5], v[6], &s[7], v[8])), txt((v[0], &s[1], v[2], &s[3], v[4], &s[5], v[6], &s[7], v[8], &s[9])),
			txt((v[0], &s[1], v[2], &s[3], v[4], &s[5], v[6], &s[7], v[8], &s[9], v[10])), txt((v[0], &s[1], v[2], &s[3], v[4], &s[5], v[6], &s[7], v[8], &s[9], v[10], &s[11])),
			txt((v[0], &s[1], v[2], &s[3], v[4], &s[5], v[6], &s[7], v[8], &s[9], v[10], &s[11], v[12])), txt((v[0], &s[1], v[2], &s[3], v[4], &s[5], v[6], &s[7], v[8], &s[9], v[10], &s[11], v[12], &s[13])),
			txt((v[0], &s[1], v[2], &s[3], v[4], &s[5], v[6], &s[7], v[8], &s[9], v[10], &s[11], v[12], &s[13], v[14])),
			txt((v[0], &s[1], v[2], &s[3], v[4], &s[5], v[6], &s[7], v[8], &s[9], v[10], &s[11], v[12], &s[13], v[14], &s[15])),
		];
		for (k, g) in got.iter().enumerate() {
			tried += 1;
			let want: Vec<Value> = (0..=k).map(|i| if i % 2 == 0 { json!(v[i]) } else { json!(s[i]) }).collect();
			if serde_json::from_str::<Value>(g).ok() != Some(Value::Array(want.clone())) {
				return json!({"probe":"params_builder_roundtrip","disagrees":true,"input":format!("tuple of {} values (u64 at even, text at odd positions) as params", k + 1),"observed":g,"expected":Value::Array(want).to_string()});
			}
		}
		tried += 3;
		let m = txt(rpc_params![v[0], &s[1], v[2]]);
		if serde_json::from_str::<Value>(&m).ok() != Some(json!([v[0], s[1], v[2]])) {
			return json!({"probe":"params_builder_roundtrip","disagrees":true,"input":"rpc_params![u64, text, u64]","observed":m,"expected":json!([v[0], s[1], v[2]]).to_string()});
		}
		// empty containers are an empty ARRAY (not "no params"): only an empty builder means "no params"
		let e_slice: &[u64] = &[];
		let empties = [("empty slice", txt(e_slice)), ("empty Vec", txt(Vec::<u64>::new())), ("empty array", txt([0u64; 0]))];
		for (what, got) in empties {
			tried += 1;
			if got != "[]" {
				return json!({"probe":"params_builder_roundtrip","disagrees":true,"input":format!("{what} as params"),"observed":got,"expected":"[]"});
			}
		}
		let arr = txt([v[0], v[1], v[2]]);
		let vecp = txt(vec![s[0].clone(), s[1].clone()]);
		if serde_json::from_str::<Value>(&arr).ok() != Some(json!([v[0], v[1], v[2]])) || serde_json::from_str::<Value>(&vecp).ok() != Some(json!([s[0], s[1]])) {
			return json!({"probe":"params_builder_roundtrip","disagrees":true,"input":"[u64; 3] and Vec<String> as params","observed":format!("{arr} / {vecp}"),"expected":"the same values in the same order"});
		}
	}
	// values the JSON text must carry EXACTLY (no detour through a lossy intermediate): integers beyond 64 bits, f32, pre-serialised raw values
	{
		use jsonrpsee_core::traits::ToRpcParams;
		fn txt<P: ToRpcParams>(p: P) -> String { match std::panic::catch_unwind(std::panic::AssertUnwindSafe(|| p.to_rpc_params())) { Ok(Ok(Some(r))) => r.get().to_string(), Ok(Ok(None)) => "<none>".into(), Ok(Err(e)) => format!("<error {e}>"), Err(_) => "<panic>".into() } }
		let raw = serde_json::value::RawValue::from_string("123456789012345678901234567890.000000000000000000001".to_string()).unwrap();
		let mut arr = ArrayParams::new();
		arr.insert(u128::MAX).unwrap();
		arr.insert(0.1f32).unwrap();
		arr.insert(&raw).unwrap();
		let via_builder = arr.to_rpc_params().unwrap().unwrap().get().to_string();
		let exact: Vec<(&str, String, String)> = vec![
			("(u128::MAX,) as params", txt((u128::MAX,)), "[340282366920938463463374607431768211455]".into()),
			("(i128::MIN,) as params", txt((i128::MIN,)), "[-170141183460469231731687303715884105728]".into()),
			("(0.1f32,) as params", txt((0.1f32,)), "[0.1]".into()),
			("vec![0.1f32, 16777217.0f32] as params", txt(vec![0.1f32, 16777217.0f32]), serde_json::to_string(&vec![0.1f32, 16777217.0f32]).unwrap()),
			("(&RawValue,) holding a 51-digit decimal as params", txt((&raw,)), format!("[{}]", raw.get())),
			("[u128::MAX; 1] as params", txt([u128::MAX; 1]), "[340282366920938463463374607431768211455]".into()),
			("tuple (u128::MAX, 0.1f32, &RawValue) against the same values through ArrayParams", txt((u128::MAX, 0.1f32, &raw)), via_builder.clone()),
		];
		for (what, got, want) in exact {
			tried += 1;
			if got != want {
				return json!({"probe":"params_builder_roundtrip","disagrees":true,"input":what,"observed":got,"expected":want});
			}
		}
	}
	// empty builders mean "no params"
	if ArrayParams::new().to_rpc_params().ok().flatten().is_some() || ObjectParams::new().to_rpc_params().ok().flatten().is_some() {
		return json!({"probe":"params_builder_roundtrip","disagrees":true,"input":"empty builder","observed":"Some(..)","expected":"None"});
	}
	json!({"probe":"params_builder_roundtrip","disagrees":false,"inputs_tried":tried,"bound":"12 x 12 awkward texts as values and keys; tuples of arity 1..16 with pairwise distinct values; rpc_params!, array and Vec params; exact texts for u128 / i128 / f32 / raw values"})
}

// ------------------------------------------------------------------------------------------
use bytes::Bytes;
use http_body_util::StreamBody;
use jsonrpsee_core::http_helpers::read_body;

fn read_chunks(chunks: Vec<Vec<u8>>, content_length: Option<usize>) -> Result<(Vec<u8>, bool), String> {
	let frames: Vec<Result<http_body::Frame<Bytes>, std::io::Error>> = chunks.into_iter().map(|c| Ok(http_body::Frame::data(Bytes::from(c)))).collect();
	let body = StreamBody::new(futures_util::stream::iter(frames));
	let mut headers = http::HeaderMap::new();
	if let Some(n) = content_length {
		headers.insert(http::header::CONTENT_LENGTH, n.to_string().parse().unwrap());
	}
	let rt = tokio::runtime::Builder::new_current_thread().build().unwrap();
	// C19 is about the ANSWER: leading JSON whitespace of what is handed on is skipped by every JSON parser, so outcomes are
	// compared without it (whether the reader strips it is an implementation detail)
	rt.block_on(read_body(&headers, body, 1024)).map_err(|e| e.to_string()).map(|(b, single)| {
		let k = b.iter().position(|c| !matches!(c, b' ' | b'\t' | b'\n' | b'\r')).unwrap_or(b.len());
		(b[k..].to_vec(), single)
	})
}

/// C19: the outcome of reading a body does not depend on how it is split into chunks nor on Content-Length.
pub fn http_body_chunking() -> Value {
	let mut bodies: Vec<Vec<u8>> = vec![
		br#"{"a":1}"#.to_vec(), b" \n\t{\"a\": \"x y \"}".to_vec(), b"[1, 2]".to_vec(), b"  [ ]".to_vec(), b"x{}".to_vec(), b"   ".to_vec(), b"".to_vec(),
		b"{".to_vec(), b" \"a\"".to_vec(),
	];
	for ws in [126usize, 127, 128, 129] {
		let mut b = vec![b' '; ws];
		b.extend_from_slice(b"{}");
		bodies.push(b);
	}
	let mut tried = 0u64;
	// Content-Length exactly at / one above the limit of 1024 (the declared length must not change the answer unless it EXCEEDS the limit)
	for n in [1023usize, 1024, 1025] {
		let mut b = b"[".to_vec();
		b.extend(std::iter::repeat(b' ').take(n - 2));
		b.push(b']');
		let with_cl = read_chunks(vec![b.clone()], Some(n));
		let without = read_chunks(vec![b.clone()], None);
		tried += 2;
		let too_large = |r: &Result<(Vec<u8>, bool), String>| matches!(r, Err(e) if e.contains("too big"));
		if n <= 1024 && (with_cl != without || with_cl.is_err()) || n > 1024 && !too_large(&with_cl) {
			return json!({"probe":"http_body_chunking","disagrees":true,
				"input": format!("body of exactly {n} bytes, limit 1024, with Content-Length: {n} vs without the header"),
				"observed": format!("with header: {:?}; without: {:?}", with_cl.as_ref().map(|(b, s)| (b.len(), *s)), without.as_ref().map(|(b, s)| (b.len(), *s))),
				"expected": if n <= 1024 { "the same successful outcome" } else { "rejected as too large when the header is present" }});
		}
	}
	// C07: a body above the limit is never returned, whatever leading whitespace it carries and however it is chunked
	for ws in [0usize, 1, 64, 127] {
		for over in [1usize, 60, 127, 200] {
			let total = 1024 + over;
			let mut b = vec![b' '; ws];
			b.push(b'[');
			while b.len() < total - 1 { b.push(b'1'); }
			b.push(b']');
			for chunks in [vec![b.clone()], vec![b[..ws + 1].to_vec(), b[ws + 1..].to_vec()], vec![b[..600].to_vec(), b[600..].to_vec()]] {
				tried += 1;
				if let Ok((data, _)) = read_chunks(chunks.clone(), None) {
					return json!({"probe":"http_body_chunking","disagrees":true,
						"input": format!("body of {total} bytes ({ws} leading spaces), limit 1024, no Content-Length, {} chunk(s)", chunks.len()),
						"observed": format!("accepted: {} bytes handed to the RPC layer", data.len()), "expected":"rejected: the message is larger than max_request_body_size"});
				}
			}
		}
	}
	// C19: a body ABOVE the limit gets one answer ("too big") however it is chunked and whether or not its length is declared --
	// also when its first bytes could be called malformed
	for (what, first) in [("a call", b'{'), ("text that is no JSON-RPC message", b'x'), ("129 leading blanks", b' ')] {
		for over in [1usize, 77] {
			let total = 1024 + over;
			let mut b = vec![first; if first == b' ' { 129 } else { 1 }];
			while b.len() < total { b.push(b'1'); }
			let with_cl = read_chunks(vec![b.clone()], Some(total));
			let mut variants: Vec<(String, Vec<Vec<u8>>, Option<usize>)> = vec![("one chunk, no Content-Length".into(), vec![b.clone()], None)];
			for cut in [1usize, 2, 130, 600, 1024, total - 1] {
				variants.push((format!("chunks of {cut} + {} bytes, no Content-Length", total - cut), vec![b[..cut].to_vec(), b[cut..].to_vec()], None));
				variants.push((format!("chunks of {cut} + {} bytes, Content-Length: {total}", total - cut), vec![b[..cut].to_vec(), b[cut..].to_vec()], Some(total)));
			}
			variants.push(("every 100 bytes a chunk, no Content-Length".into(), b.chunks(100).map(|c| c.to_vec()).collect(), None));
			for (how, chunks, cl) in variants {
				tried += 1;
				let got = read_chunks(chunks, cl);
				if got != with_cl || got.is_ok() {
					return json!({"probe":"http_body_chunking","disagrees":true,
						"input": format!("body of {total} bytes ({what}), limit 1024: {how}"),
						"observed": format!("{:?}", got.map(|(b, s)| (b.len(), s))),
						"expected": format!("{:?} (the outcome for the same bytes in one chunk with Content-Length: {total})", with_cl.clone().map(|(b, s)| (b.len(), s)))});
				}
			}
		}
	}
	// C07: a declared length within the limit does not switch off the counting of the actual body
	{
		tried += 1;
		let mut b = b"[".to_vec();
		while b.len() < 4000 { b.push(b'1'); }
		b.push(b']');
		if let Ok((data, _)) = read_chunks(vec![b.clone()], Some(100)) {
			return json!({"probe":"http_body_chunking","disagrees":true,"input":"body of 4001 bytes, limit 1024, Content-Length header claiming 100",
				"observed": format!("accepted: {} bytes handed to the RPC layer", data.len()), "expected":"rejected"});
		}
	}
	for body in &bodies {
		let whole = read_chunks(vec![body.clone()], None);
		let n = body.len();
		// all 2-way and 3-way splits (cut points may coincide => empty chunks), plus leading/trailing empty chunks
		let mut splits: Vec<Vec<Vec<u8>>> = vec![vec![vec![], body.clone()], vec![body.clone(), vec![]]];
		let cuts: Vec<usize> = if n <= 12 { (0..=n).collect() } else { vec![0, 1, 2, n / 2, 125.min(n), 126.min(n), 127.min(n), 128.min(n), 129.min(n), n - 1, n] };
		for &i in &cuts {
			for &j in &cuts {
				if i <= j {
					splits.push(vec![body[..i].to_vec(), body[i..j].to_vec(), body[j..].to_vec()]);
				}
			}
		}
		for s in splits {
			for cl in [None, Some(n)] {
				tried += 1;
				let got = read_chunks(s.clone(), cl);
				if got != whole {
					return json!({"probe":"http_body_chunking","disagrees":true,
						"input": format!("body {:?} split into chunks {:?}, Content-Length {:?}", String::from_utf8_lossy(body), s.iter().map(|c| String::from_utf8_lossy(c).to_string()).collect::<Vec<_>>(), cl),
						"observed": format!("{:?}", got.map(|(b, s)| (String::from_utf8_lossy(&b).to_string(), s))),
						"expected": format!("{:?} (the outcome for the same bytes in one chunk)", whole.clone().map(|(b, s)| (String::from_utf8_lossy(&b).to_string(), s)))});
				}
			}
		}
	}
	json!({"probe":"http_body_chunking","disagrees":false,"inputs_tried":tried,"bound":"13 bodies x all 3-way splits (incl. empty chunks) x Content-Length present/absent"})
}

/// C19: only the accepted content-type spellings (any ASCII case) are JSON; everything else is not.
pub fn http_content_type_gate() -> Value {
	let accepted = [
		"application/json", "application/json; charset=utf-8", "application/json;charset=utf-8",
		"application/json-rpc", "application/json-rpc;charset=utf-8", "application/json-rpc; charset=utf-8",
	];
	let rejected = [
		"", "application/json;", "application/json; charset=utf-16", "application/json-rpc;version=2", "application/jsonx", "text/json",
		"application/text", "application/json ", " application/json", "application/json;charset=utf-8;", "application/json; charset=utf-8 ",
		"application/json-rpc; charset=latin1", "json", "application/", "application/json,application/json", "multipart/form-data; boundary=application/json",
	];
	let mut tried = 0;
	for a in accepted {
		for variant in [a.to_string(), a.to_uppercase(), a.replace("json", "JsOn")] {
			tried += 1;
			let hv = hyper::header::HeaderValue::from_str(&variant).unwrap();
			if !jsonrpsee_server::http::is_json(Some(&hv)) {
				return json!({"probe":"http_content_type_gate","disagrees":true,"input":variant,"observed":"rejected","expected":"accepted"});
			}
		}
	}
	for r in rejected {
		tried += 1;
		let hv = hyper::header::HeaderValue::from_str(r).unwrap();
		if jsonrpsee_server::http::is_json(Some(&hv)) {
			return json!({"probe":"http_content_type_gate","disagrees":true,"input":r,"observed":"accepted as JSON","expected":"not a JSON content type (415)"});
		}
	}
	if jsonrpsee_server::http::is_json(None) {
		return json!({"probe":"http_content_type_gate","disagrees":true,"input":"no Content-Type header","observed":"accepted","expected":"rejected"});
	}
	json!({"probe":"http_content_type_gate","disagrees":false,"inputs_tried":tried,"bound":"6 accepted spellings x 3 case variants; 16 near-miss content types; absent header"})
}

/// C09: for any bytes the server may send no background task panics: the pending call fails and on_disconnect resolves.
pub fn client_survives_hostile_ids() -> Value {
	rt().block_on(async {
		let hostile = [
			r#"[{"jsonrpc":"2.0","id":18446744073709551615,"result":1}]"#.to_string(),
			r#"[{"jsonrpc":"2.0","id":18446744073709551614,"result":1},{"jsonrpc":"2.0","id":18446744073709551615,"result":1}]"#.to_string(),
			r#"[{"jsonrpc":"2.0","id":0,"result":1},{"jsonrpc":"2.0","id":18446744073709551615,"result":1}]"#.to_string(),
			r#"{"jsonrpc":"2.0","id":18446744073709551615,"result":1}"#.to_string(),
			r#"[{"jsonrpc":"2.0","id":"18446744073709551615","result":1}]"#.to_string(),
			r#"[]"#.to_string(),
			r#"[{"jsonrpc":"2.0","id":null,"result":1}]"#.to_string(),
			r#"[{"jsonrpc":"2.0","id":0,"result":1},{"jsonrpc":"2.0","id":18446744073709551614,"result":1}]"#.to_string(),
			r#"[{"jsonrpc":"2.0","id":1,"result":1},{"jsonrpc":"2.0","id":4611686018427387905,"result":1}]"#.to_string(),
			r#"[{"jsonrpc":"2.0","id":9223372036854775807,"result":1},{"jsonrpc":"2.0","id":9223372036854775808,"result":1}]"#.to_string(),
		];
		for msg in hostile {
			let (c, mut peer) = mock::client(ClientBuilder::default().request_timeout(std::time::Duration::from_secs(5)));
			let c = std::sync::Arc::new(c);
			let c2 = c.clone();
			let call = tokio::spawn(async move { c2.request::<u64, _>("m", rpc_params![]).await });
			let _req = peer.next().await.unwrap();
			peer.send(&msg);
			let res = tokio::time::timeout(std::time::Duration::from_secs(2), call).await;
			let disc = tokio::time::timeout(std::time::Duration::from_secs(2), c.on_disconnect()).await;
			match (res, disc) {
				(Ok(Ok(Err(_))), Ok(_)) => {}
				(r, d) => {
					return json!({"probe":"client_survives_hostile_ids","disagrees":true,"input":format!("one pending call; server sends {msg}"),
						"observed": format!("pending call: {}, on_disconnect: {}", match r { Ok(Ok(Ok(v))) => format!("Ok({v})"), Ok(Ok(Err(e))) => format!("Err({e})"), Ok(Err(_)) => "task panicked".into(), Err(_) => "still pending after 2s".into() },
							if d.is_ok() { "resolved" } else { "still pending after 2s (background task gone without reporting)" }),
						"expected":"the call fails with the disconnect cause and on_disconnect resolves"});
				}
			}
		}
		json!({"probe":"client_survives_hostile_ids","disagrees":false,"inputs_tried":10})
	})
}

/// C05: notifications packed in an array behave like the same notifications sent singly (incl. the close notification).
pub fn client_subscription_array_equals_single() -> Value {
	rt().block_on(async {
		let mut outcomes: Vec<(bool, Vec<String>, bool)> = Vec::new();
		for packed in [false, true] {
			let (c, mut peer) = mock::client(ClientBuilder::default());
			let fut = c.subscribe::<String, _>("sub", rpc_params![], "unsub");
			let h = tokio::spawn(async move {
				let req = peer.next().await.unwrap();
				peer.send(&json!({"jsonrpc":"2.0","id":id_of(&req),"result":"S1"}).to_string());
				peer
			});
			let mut sub: Subscription<String> = fut.await.unwrap();
			let peer = h.await.unwrap();
			let n1 = json!({"jsonrpc":"2.0","method":"sub","params":{"subscription":"S1","result":"a"}});
			let other = json!({"jsonrpc":"2.0","method":"sub","params":{"subscription":"OTHER","result":"zzz"}});
			let n2 = json!({"jsonrpc":"2.0","method":"sub","params":{"subscription":"S1","result":"b"}});
			let close = json!({"jsonrpc":"2.0","method":"sub","params":{"subscription":"S1","error":"bye"}});
			if packed {
				peer.send(&json!([n1, other, n2, close]).to_string());
			} else {
				for m in [n1, other, n2, close] {
					peer.send(&m.to_string());
				}
			}
			let mut got = Vec::new();
			let mut ended = false;
			for _ in 0..4 {
				match tokio::time::timeout(std::time::Duration::from_millis(600), sub.next()).await {
					Ok(Some(Ok(v))) => got.push(v),
					Ok(Some(Err(e))) => got.push(format!("ERR {e}")),
					Ok(None) => {
						ended = true;
						break;
					}
					Err(_) => break,
				}
			}
			outcomes.push((packed, got, ended));
		}
		let want = (vec!["a".to_string(), "b".to_string()], true);
		for (packed, got, ended) in &outcomes {
			if (got.clone(), *ended) != want {
				return json!({"probe":"client_subscription_array_equals_single","disagrees":true,
					"input": format!("subscription S1 accepted; server sends [notif a, notif for OTHER, notif b, close(S1)] {}", if *packed {"packed in ONE array"} else {"as four single messages"}),
					"observed": format!("stream yielded {:?}, ended = {}", got, ended), "expected":"stream yields [\"a\", \"b\"] and then ends"});
			}
		}
		// a lagging subscription (buffer 1, nothing read) sharing an array with a batch reply: the batch still completes with
		// its own answers, and the lag closure makes the client send exactly one unsubscribe request naming that subscription
		for packed in [true, false] {
			let (c, mut peer) = mock::client(ClientBuilder::default().max_buffer_capacity_per_subscription(1).request_timeout(std::time::Duration::from_secs(2)));
			let c = std::sync::Arc::new(c);
			let fut = c.subscribe::<String, _>("sub", rpc_params![], "unsub");
			let h = tokio::spawn(async move {
				let req = peer.next().await.unwrap();
				peer.send(&json!({"jsonrpc":"2.0","id":id_of(&req),"result":"L1"}).to_string());
				peer
			});
			let sub: Subscription<String> = fut.await.unwrap();
			let mut peer = h.await.unwrap();
			let mut b = BatchRequestBuilder::new();
			b.insert("m", rpc_params![0]).unwrap();
			b.insert("m", rpc_params![1]).unwrap();
			let c2 = c.clone();
			let bh = tokio::spawn(async move { c2.batch_request::<String>(b).await.map(|r| r.into_iter().map(|e| e.map_err(|e| e.message().to_string())).collect::<Vec<_>>()).map_err(|e| e.to_string()) });
			let breq = peer.next().await.unwrap();
			let arr: Vec<Value> = serde_json::from_str(&breq).unwrap_or_default();
			let (i0, i1) = (arr[0]["id"].clone(), arr[1]["id"].clone());
			let n = |k: u32| json!({"jsonrpc":"2.0","method":"sub","params":{"subscription":"L1","result":format!("item{k}")}});
			let r0 = json!({"jsonrpc":"2.0","id":i0,"result":"zero"});
			let r1 = json!({"jsonrpc":"2.0","id":i1,"result":"one"});
			if packed {
				peer.send(&json!([n(1), n(2), r0, r1]).to_string());
			} else {
				peer.send(&n(1).to_string());
				peer.send(&n(2).to_string());
				peer.send(&json!([r0, r1]).to_string());
			}
			let shape = if packed { "[notif, notif (overflows the buffer), response, response] in ONE array" } else { "two single notifications (the second overflows the buffer), then the batch reply array" };
			let got = tokio::time::timeout(std::time::Duration::from_secs(3), bh).await;
			let want: Result<Vec<Result<String, String>>, String> = Ok(vec![Ok("zero".to_string()), Ok("one".to_string())]);
			match got {
				Ok(Ok(r)) if r == want => {}
				other => return json!({"probe":"client_subscription_array_equals_single","disagrees":true,
					"input": format!("subscription L1 with buffer 1 and an idle consumer; a batch of 2 pending; server sends {shape}"),
					"observed": format!("batch call: {:?}", other.map(|x| x.map_err(|e| e.to_string()))), "expected":"Ok([\"zero\", \"one\"])"}),
			}
			// exactly one unsubscribe naming L1
			let mut unsubs = 0;
			while let Ok(Some(m)) = tokio::time::timeout(std::time::Duration::from_millis(300), peer.next()).await {
				let v: Value = serde_json::from_str(&m).unwrap_or(Value::Null);
				if v["method"] == json!("unsub") && v["params"] == json!(["L1"]) { unsubs += 1; }
			}
			if unsubs != 1 {
				return json!({"probe":"client_subscription_array_equals_single","disagrees":true,
					"input": format!("subscription L1 with buffer 1 and an idle consumer closed for lagging; server sent {shape}"),
					"observed": format!("{unsubs} unsubscribe request(s) naming L1 on the wire"), "expected":"exactly one"});
			}
			drop(sub);
		}
		json!({"probe":"client_subscription_array_equals_single","disagrees":false,"histories_tried":4})
	})
}

// ------------------------------------------------------------------------------------------
use jsonrpsee_core::server::RpcModule;

fn names(m: &RpcModule<()>) -> Vec<&'static str> {
	let mut v: Vec<&'static str> = m.method_names().collect();
	v.sort();
	v
}

/// C13: failed registrations change nothing; success adds exactly the named entries; clones are unaffected.
pub fn registry_atomicity() -> Value {
	let fail = |what: &str, obs: String, exp: String| json!({"probe":"registry_atomicity","disagrees":true,"input":what,"observed":obs,"expected":exp});
	let mut m = RpcModule::new(());
	m.register_method("a", |_, _, _| 1u64).unwrap();
	m.register_method("b", |_, _, _| 2u64).unwrap();
	let before = names(&m);
	let snapshot = m.clone();
	// taken name
	if m.register_method("a", |_, _, _| 3u64).is_ok() || names(&m) != before {
		return fail("register_method(\"a\") on a module that has \"a\"", format!("{:?}", names(&m)), format!("Err, names {:?}", before));
	}
	// alias: taken alias / unknown target
	if m.register_alias("b", "a").is_ok() || m.register_alias("z", "nope").is_ok() || names(&m) != before {
		return fail("register_alias with taken alias / unknown target", format!("{:?}", names(&m)), format!("Err, names {:?}", before));
	}
	// subscription whose names coincide, or whose unsubscribe / subscribe name is taken: nothing is added
	for (s, u) in [("s", "s"), ("s", "a"), ("a", "u"), ("b", "a")] {
		let ok = m.register_subscription(s, "n", u, |_, _, _, _| async { }).is_ok();
		if ok || names(&m) != before {
			return fail(&format!("register_subscription(subscribe={s:?}, unsubscribe={u:?}) on names {before:?}"), format!("ok={} names={:?}", ok, names(&m)), format!("Err, names {:?}", before));
		}
	}
	// merge with a module that shares one of several names: nothing is added (whatever the iteration order)
	for shared in ["a", "b"] {
		let mut other = RpcModule::new(());
		for n in ["x1", "x2", "x3", "x4", "x5", "x6", "x7", "x8"] {
			other.register_method(n, |_, _, _| 0u64).unwrap();
		}
		other.register_method(shared, |_, _, _| 9u64).unwrap();
		if m.merge(other).is_ok() || names(&m) != before {
			return fail(&format!("merge of a module with 8 fresh names and the shared name {shared:?}"), format!("{:?}", names(&m)), format!("Err, names {:?}", before));
		}
	}
	// successes add exactly the named entries
	m.register_alias("c", "a").unwrap();
	m.register_subscription("s", "n", "u", |_, _, _, _| async { }).unwrap();
	let mut want = before.clone();
	want.extend(["c", "s", "u"]);
	want.sort();
	if names(&m) != want {
		return fail("alias c->a, subscription (s, u)", format!("{:?}", names(&m)), format!("{:?}", want));
	}
	if m.remove_method("c").is_none() || m.remove_method("c").is_some() {
		return fail("remove_method(\"c\") twice", "first None or second Some".into(), "Some then None".into());
	}
	// remove while a clone of the module is alive: the name is unbound in the original (and can be registered again),
	// still bound in the clone
	{
		let keep = m.clone();
		let had = names(&m);
		let removed = m.remove_method("a").is_some();
		let after: Vec<&'static str> = had.iter().cloned().filter(|n| *n != "a").collect();
		if !removed || names(&m) != after {
			return fail("clone the module, then remove_method(\"a\") on the original", format!("removed={} names={:?}", removed, names(&m)), format!("removed=true names={:?}", after));
		}
		if names(&keep) != had {
			return fail("clone the module, then remove_method(\"a\") on the original: names of the CLONE", format!("{:?}", names(&keep)), format!("{:?}", had));
		}
		if m.register_method("a", |_, _, _| 5u64).is_err() || names(&m) != had {
			return fail("register \"a\" again after removing it (a clone of the module still alive)", format!("{:?}", names(&m)), format!("Ok, names {:?}", had));
		}
	}
	// the clone taken earlier is unaffected
	if names(&snapshot) != before {
		return fail("clone taken before the changes", format!("{:?}", names(&snapshot)), format!("{:?}", before));
	}
	// a failed registration leaves the ORIGINAL handler bound (not only the name): ask the module which handler answers
	{
		let answer = |m: &RpcModule<()>, name: &str| -> String {
			rt().block_on(async { m.raw_json_request(&format!(r#"{{"jsonrpc":"2.0","id":1,"method":"{name}"}}"#), 1).await.map(|(rp, _)| rp.get().to_string()).unwrap_or_else(|e| format!("<{e}>")) })
		};
		let mut h = RpcModule::new(());
		h.register_method("first", |_, _, _| "first").unwrap();
		h.register_async_method("afirst", |_, _, _| async { "afirst" }).unwrap();
		let kept = h.clone();
		let _ = h.register_method("first", |_, _, _| "second");
		let _ = h.register_async_method("first", |_, _, _| async { "third" });
		let _ = h.register_blocking_method("afirst", |_, _, _| "fourth");
		let _ = h.register_alias("first", "afirst");
		for (m, which) in [(&h, "module"), (&kept, "clone taken before")] {
			for name in ["first", "afirst"] {
				let got = answer(m, name);
				if !got.contains(&format!("\"result\":\"{name}\"")) {
					return fail(&format!("register {name:?}, then failing registrations of the same name with other handlers; call {name:?} on the {which}"), got, format!("the result of the ORIGINAL handler: {name:?}"));
				}
			}
		}
		// merging a module of which a clone is still alive adds ALL its names (and they answer), and merging it twice fails
		let mut api = RpcModule::new(());
		api.register_method("api_one", |_, _, _| "api_one").unwrap();
		api.register_method("api_two", |_, _, _| "api_two").unwrap();
		let api_clone = api.clone();
		let mut root = RpcModule::new(());
		root.register_method("root", |_, _, _| "root").unwrap();
		let ok = root.merge(api.clone()).is_ok();
		let mut want = vec!["api_one", "api_two", "root"];
		want.sort();
		if !ok || names(&root) != want || !answer(&root, "api_two").contains("\"result\":\"api_two\"") {
			return fail("merge(api.clone()) while `api` (and another clone) stay alive", format!("ok={ok} names={:?} api_two -> {}", names(&root), answer(&root, "api_two")), format!("Ok, names {want:?}, api_two answers"));
		}
		if root.merge(api).is_ok() || names(&root) != want {
			return fail("merge the same module a second time", format!("names={:?}", names(&root)), "Err (names taken), nothing changed".into());
		}
		if names(&api_clone) != vec!["api_one", "api_two"] {
			return fail("names of the clone of the merged module", format!("{:?}", names(&api_clone)), "[api_one, api_two]".into());
		}
	}
	json!({"probe":"registry_atomicity","disagrees":false,"inputs_tried":24})
}

// ------------------------------------------------------------------------------------------
/// C07: over WebSocket the request-size limit (and only it) decides whether a message is processed — on the default
/// server and on the low-level `ws::connect` assembly alike.
pub fn ws_request_limit_paths() -> Value {
	use jsonrpsee_server::{ConnectionGuard, ConnectionState, Methods, ServerConfig, StopHandle, serve_with_graceful_shutdown, stop_channel, ws, http};
	use jsonrpsee_core::middleware::RpcServiceBuilder;
	use futures_util::FutureExt;

	async fn low_level(cfg: ServerConfig) -> std::net::SocketAddr {
		let listener = tokio::net::TcpListener::bind(std::net::SocketAddr::from(([127, 0, 0, 1], 0))).await.unwrap();
		let local_addr = listener.local_addr().unwrap();
		let (stop_handle, server_handle) = stop_channel();
		let mut methods = RpcModule::new(());
		methods.register_method("echo_len", |p, _, _| p.one::<String>().map(|s| s.len() as u64).unwrap_or(0)).unwrap();
		#[derive(Clone)]
		struct PerConnection { methods: Methods, stop_handle: StopHandle, conn_guard: ConnectionGuard, cfg: ServerConfig }
		let per_conn = PerConnection { methods: methods.into(), stop_handle: stop_handle.clone(), conn_guard: ConnectionGuard::new(100), cfg };
		tokio::spawn(async move {
			loop {
				let (sock, _) = tokio::select! {
					res = listener.accept() => match res { Ok(s) => s, Err(_) => continue },
					_ = per_conn.stop_handle.clone().shutdown() => break,
				};
				let per_conn = per_conn.clone();
				let stop_handle2 = per_conn.stop_handle.clone();
				let svc = tower::service_fn(move |req| {
					let PerConnection { methods, stop_handle, conn_guard, cfg } = per_conn.clone();
					let conn_permit = conn_guard.try_acquire().unwrap();
					if ws::is_upgrade_request(&req) {
						let rpc_service = RpcServiceBuilder::new();
						let conn = ConnectionState::new(stop_handle, 0, conn_permit);
						async move {
							match ws::connect(req, cfg, methods, conn, rpc_service).await {
								Ok((rp, conn_fut)) => { tokio::spawn(conn_fut); Ok(rp) }
								Err(rp) => Ok(rp),
							}
						}.boxed()
					} else {
						async { Ok::<_, jsonrpsee_core::BoxError>(http::response::denied()) }.boxed()
					}
				});
				tokio::spawn(serve_with_graceful_shutdown(sock, svc, stop_handle2.shutdown()));
			}
		});
		tokio::spawn(server_handle.stopped());
		local_addr
	}
	async fn default_server(cfg: ServerConfig) -> (std::net::SocketAddr, jsonrpsee_server::ServerHandle) {
		let server = jsonrpsee_server::Server::builder().set_config(cfg).build("127.0.0.1:0").await.unwrap();
		let addr = server.local_addr().unwrap();
		let mut methods = RpcModule::new(());
		methods.register_method("echo_len", |p, _, _| p.one::<String>().map(|s| s.len() as u64).unwrap_or(0)).unwrap();
		(addr, server.start(methods))
	}
	rt().block_on(async {
		let mut tried = 0;
		// (request limit, response limit, payload size, must be processed?)
		let cases = [(100u32, 10_000_000u32, 300usize, false), (100, 10_000_000, 20, true), (10_000_000, 120, 300, true), (10_000_000, 120, 20, true), (400, 400, 300, true)];
		for (req_limit, rsp_limit, payload, processed) in cases {
			for path in ["default server", "low-level ws::connect"] {
				tried += 1;
				let cfg = ServerConfig::builder().max_request_body_size(req_limit).max_response_body_size(rsp_limit).build();
				let mut _keep = None;
				let addr = if path == "default server" { let (a, h) = default_server(cfg).await; _keep = Some(h); a } else { low_level(cfg).await };
				use jsonrpsee_client_transport::ws::WsTransportClientBuilder;
				use jsonrpsee_core::client::{ReceivedMessage, TransportReceiverT, TransportSenderT};
				let url = url::Url::parse(&format!("ws://{}", addr)).unwrap();
				let (mut tx, mut rx) = WsTransportClientBuilder::default().max_request_size(20_000_000).max_response_size(20_000_000).build(url).await.unwrap();
				let arg = "p".repeat(payload);
				tx.send(json!({"jsonrpc":"2.0","id":1,"method":"echo_len","params":[arg]}).to_string()).await.unwrap();
				let res = tokio::time::timeout(std::time::Duration::from_secs(5), rx.receive()).await;
				let txt = match &res { Ok(Ok(ReceivedMessage::Text(t))) => t.clone(), Ok(Ok(ReceivedMessage::Bytes(b))) => String::from_utf8_lossy(b).to_string(), other => format!("{:?}", other.as_ref().map(|r| r.as_ref().map(|_| ()).map_err(|e| e.to_string()))) };
				let v: Value = serde_json::from_str(&txt).unwrap_or(Value::Null);
				let got_processed = v["result"] == json!(payload) && v["id"] == json!(1);
				let rejected = v["error"]["code"] == json!(-32007);
				// the connection must keep serving
				let _ = tx.send(json!({"jsonrpc":"2.0","id":2,"method":"echo_len","params":["ok"]}).to_string()).await;
				let alive = tokio::time::timeout(std::time::Duration::from_secs(5), rx.receive()).await;
				let alive_ok = matches!(&alive, Ok(Ok(ReceivedMessage::Text(t))) if serde_json::from_str::<Value>(t).map(|v| v["result"] == json!(2)).unwrap_or(false));
				let res = txt;
				if got_processed != processed || (!processed && !rejected) || !alive_ok {
					return json!({"probe":"ws_request_limit_paths","disagrees":true,
						"input": format!("{path}: max_request_body_size={req_limit}, max_response_body_size={rsp_limit}, WebSocket call with a {payload}-byte parameter"),
						"observed": format!("{}; a later small call on the same connection: {}", res, if alive_ok {"served"} else {"NOT served"}),
						"expected": if processed {"processed (the message is within the REQUEST limit)".to_string()} else {"rejected with -32007 request too big; connection keeps serving".to_string()}});
				}
			}
		}
		json!({"probe":"ws_request_limit_paths","disagrees":false,"inputs_tried":tried,"bound":"5 limit/payload combinations x {default server, low-level ws::connect}"})
	})
}

/// C03 (schedules): a reply that overtakes the completion of the transport's send future is still routed to its call.
pub fn client_reply_overtakes_send() -> Value {
	for threads in [1usize, 4] {
		let rt = tokio::runtime::Builder::new_multi_thread().worker_threads(threads).enable_all().build().unwrap();
		let r = rt.block_on(async {
			let c = mock::eager_echo_client(ClientBuilder::default().request_timeout(std::time::Duration::from_secs(3)));
			let single = c.request::<String, _>("m", rpc_params![]).await;
			if single.is_err() {
				return Some(("a single call".to_string(), format!("{:?}", single.map_err(|e| e.to_string()))));
			}
			let mut b = BatchRequestBuilder::new();
			b.insert("a", rpc_params![]).unwrap();
			b.insert("b", rpc_params![]).unwrap();
			let batch = c.batch_request::<String>(b).await;
			match batch {
				Ok(br) if br.num_successful_calls() == 2 => {}
				other => return Some(("a batch of two calls".to_string(), format!("{:?}", other.map(|b| b.num_successful_calls()).map_err(|e| e.to_string())))),
			}
			let sub = c.subscribe::<String, _>("s", rpc_params![], "u").await;
			if sub.is_err() {
				return Some(("a subscribe call".to_string(), format!("{:?}", sub.map(|_| ()).map_err(|e| e.to_string()))));
			}
			None
		});
		if let Some((what, got)) = r {
			return json!({"probe":"client_reply_overtakes_send","disagrees":true,
				"input": format!("{what} over a transport whose send() future returns 40 ms AFTER the peer has already answered ({threads} worker thread(s))"),
				"observed": got, "expected":"the call completes with its own answer"});
		}
	}
	json!({"probe":"client_reply_overtakes_send","disagrees":false,"histories_tried":6})
}

// ------------------------------------------------------------------------------------------
// C12 (HTTP client): a middleware layer that answers `batch` with a canned list of reply ids (relative to the batch start)
mod http_mock {
	use jsonrpsee_core::client::{Error, MiddlewareBatchResponse, MiddlewareMethodResponse, MiddlewareNotifResponse, RawResponseOwned};
	use jsonrpsee_core::middleware::{Batch, BatchEntry, Notification, RpcServiceT};
	use jsonrpsee_types::{Id, Request, Response, ResponsePayload};
	use std::sync::{Arc, Mutex};

	#[derive(Clone)]
	pub struct Canned<S> {
		pub inner: S,
		pub rel_ids: Arc<Mutex<Vec<i64>>>,
	}
	fn raw(id: u64, text: String) -> RawResponseOwned {
		let v = serde_json::value::to_raw_value(&text).unwrap();
		let rp: Response<'static, Box<serde_json::value::RawValue>> = Response::new(ResponsePayload::success(v), Id::Number(id));
		rp.into()
	}
	impl<S> RpcServiceT for Canned<S>
	where
		S: RpcServiceT<MethodResponse = Result<MiddlewareMethodResponse, Error>, BatchResponse = Result<MiddlewareBatchResponse, Error>, NotificationResponse = Result<MiddlewareNotifResponse, Error>> + Send + Sync + Clone + 'static,
	{
		type MethodResponse = Result<MiddlewareMethodResponse, Error>;
		type BatchResponse = Result<MiddlewareBatchResponse, Error>;
		type NotificationResponse = Result<MiddlewareNotifResponse, Error>;
		fn call<'a>(&self, request: Request<'a>) -> impl Future<Output = Self::MethodResponse> + Send + 'a {
			// warm-up calls are answered locally with their own id
			let id = request.id.clone().into_owned();
			async move {
				let n = match id { Id::Number(n) => n, _ => 0 };
				Ok(MiddlewareMethodResponse::response(raw(n, "warm".into())))
			}
		}
		fn batch<'a>(&self, requests: Batch<'a>) -> impl Future<Output = Self::BatchResponse> + Send + 'a {
			let rel = self.rel_ids.lock().unwrap().clone();
			let mut start = None;
			for e in requests.iter() {
				if let Ok(BatchEntry::Call(r)) = e {
					if let Id::Number(n) = r.id {
						start = Some(start.map_or(n, |s: u64| s.min(n)));
					}
				}
			}
			async move {
				let start = start.unwrap_or(0) as i64;
				Ok(rel.iter().enumerate().map(|(pos, r)| raw((start + r) as u64, format!("id{}#pos{}", start + r, pos))).collect())
			}
		}
		fn notification<'a>(&self, n: Notification<'a>) -> impl Future<Output = Self::NotificationResponse> + Send + 'a {
			self.inner.notification(n)
		}
	}
}

/// C05: "nothing belonging to other methods": a plain method notification whose params are given BY POSITION -- two of them, the
/// first looking like a subscription id -- is not a subscription notification: it reaches the method's stream, no subscription's.
pub fn client_positional_notification_routing() -> Value {
	use std::time::Duration;
	let fail = |input: String, obs: String, exp: &str| json!({"probe":"client_positional_notification_routing","disagrees":true,"input":input,"observed":obs,"expected":exp});
	rt().block_on(async {
		let mut tried = 0u64;
		for packed in [false, true] {
			for (sid, label) in [(json!(1), "1"), (json!("x"), "\"x\"")] {
				tried += 1;
				let (c, mut peer) = mock::client(ClientBuilder::default());
				let c = std::sync::Arc::new(c);
				let mut other: Subscription<Value> = c.subscribe_to_method("other").await.unwrap();
				let c2 = c.clone();
				let t = tokio::spawn(async move { c2.subscribe::<Value, _>("sub", rpc_params![], "unsub").await });
				let m = peer.next().await.unwrap();
				peer.send(&json!({"jsonrpc":"2.0","id":id_of(&m),"result":sid}).to_string());
				let mut sub = t.await.unwrap().unwrap();
				let own = |v: &str| json!({"jsonrpc":"2.0","method":"n","params":{"subscription":sid,"result":v}});
				let foreign = json!({"jsonrpc":"2.0","method":"other","params":[sid, "belongs to method other"]});
				let msgs = vec![own("a1"), foreign.clone(), own("a2")];
				if packed { peer.send(&Value::Array(msgs).to_string()); } else { for m in msgs { peer.send(&m.to_string()); } }
				let desc = format!("subscription with id {label} and a stream on method `other`; the server sends ({}) a1 for the subscription, the method notification {foreign}, a2 for the subscription", if packed {"in one array"} else {"singly"});
				let mut got = Vec::new();
				for _ in 0..3 {
					match tokio::time::timeout(Duration::from_millis(300), sub.next()).await {
						Ok(Some(Ok(v))) => got.push(v),
						_ => break,
					}
				}
				if got != vec![json!("a1"), json!("a2")] {
					return fail(desc, format!("the subscription stream yielded {}", Value::Array(got)), "[\"a1\",\"a2\"]");
				}
				match tokio::time::timeout(Duration::from_millis(300), other.next()).await {
					Ok(Some(Ok(v))) if v == json!([sid, "belongs to method other"]) => {}
					o => return fail(desc, format!("the stream on method `other` yielded {:?}", o.map(|x| x.map(|y| y.map_err(|e| e.to_string())))), "its notification's params"),
				}
			}
		}
		json!({"probe":"client_positional_notification_routing","disagrees":false,"inputs_tried":tried,"bound":"subscription ids 1 and \"x\", single / array delivery"})
	})
}

/// C09: no call, subscribe or subscribe_to_method future stays pending longer than the request timeout, also while the
/// background task is busy inside a slow transport send and the request queue is full.
pub fn client_futures_bounded_by_timeout() -> Value {
	use std::time::{Duration, Instant};
	let timeout = Duration::from_millis(300);
	let slack = Duration::from_millis(700);
	rt().block_on(async {
		let mut tried = 0u64;
		for which in ["request", "subscribe", "subscribe_to_method", "notification-free batch"] {
			tried += 1;
			let (c, _peer, gate, mut entered) = mock::gated_client(ClientBuilder::default().request_timeout(timeout).max_concurrent_requests(1));
			let c = std::sync::Arc::new(c);
			let c1 = c.clone();
			let t1 = tokio::spawn(async move { c1.request::<u64, _>("block", rpc_params![]).await });
			let _ = tokio::time::timeout(Duration::from_secs(2), entered.recv()).await;
			// fills the one slot of the request queue
			let c2 = c.clone();
			let t2 = tokio::spawn(async move { c2.request::<u64, _>("fill", rpc_params![]).await });
			tokio::time::sleep(Duration::from_millis(30)).await;
			let c3 = c.clone();
			let started = Instant::now();
			let fut = tokio::spawn(async move {
				match which {
					"request" => c3.request::<u64, _>("m", rpc_params![]).await.map(|_| ()),
					"subscribe" => c3.subscribe::<u64, _>("sub", rpc_params![], "unsub").await.map(|_| ()),
					"subscribe_to_method" => c3.subscribe_to_method::<u64>("m").await.map(|_| ()),
					_ => {
						let mut b = BatchRequestBuilder::new();
						b.insert("m", rpc_params![]).unwrap();
						c3.batch_request::<u64>(b).await.map(|_| ())
					}
				}
			});
			let done = tokio::time::timeout(timeout + slack, fut).await;
			let elapsed = started.elapsed();
			gate.notify_one();
			t1.abort();
			t2.abort();
			if done.is_err() {
				return json!({"probe":"client_futures_bounded_by_timeout","disagrees":true,
					"input": format!("request timeout 300 ms, max_concurrent_requests 1; the send task is inside a slow transport send, a second request fills the queue; then `{which}` is called"),
					"observed": format!("still pending after {} ms", elapsed.as_millis()),
					"expected": "the future completes (RequestTimeout) within the request timeout"});
			}
		}
		json!({"probe":"client_futures_bounded_by_timeout","disagrees":false,"inputs_tried":tried,"bound":"request / subscribe / subscribe_to_method / batch_request behind a blocked send task and a full queue; timeout 300 ms, 700 ms slack"})
	})
}

/// C05: the stream yields its notifications in order WITHOUT HOLES: once one was discarded because the consumer lagged, no later
/// one is yielded (the send task is kept busy inside a slow transport send, so the closure request is not handled meanwhile).
pub fn client_lagged_stream_no_holes() -> Value {
	use std::time::Duration;
	let fail = |input: String, obs: String| json!({"probe":"client_lagged_stream_no_holes","disagrees":true,"input":input,"observed":obs,
		"expected":"the buffered notifications in order, then the end of the stream (or nothing more): never a notification after a discarded one"});
	rt().block_on(async {
		let mut tried = 0u64;
		for cap in 1..=3usize {
			for packed in [false, true] {
				tried += 1;
				let (c, mut peer, gate, mut entered) = mock::gated_client(ClientBuilder::default().max_buffer_capacity_per_subscription(cap).request_timeout(Duration::from_secs(5)));
				let c = std::sync::Arc::new(c);
				// a fence: a method-notification stream; once its marker is read, the read task has handled everything pushed before it
				let mut fence: Subscription<Value> = c.subscribe_to_method("fence").await.unwrap();
				let c2 = c.clone();
				let sub_task = tokio::spawn(async move { c2.subscribe::<u64, _>("sub", rpc_params![], "unsub").await });
				let m = peer.next().await.unwrap();
				peer.send(&json!({"jsonrpc":"2.0","id":id_of(&m),"result":"A"}).to_string());
				let mut sub = sub_task.await.unwrap().unwrap();
				// the send task gets stuck inside the transport
				let c3 = c.clone();
				let blocked = tokio::spawn(async move { c3.request::<u64, _>("block", rpc_params![]).await });
				let _ = tokio::time::timeout(Duration::from_secs(2), entered.recv()).await;
				let n = |k: u64| json!({"jsonrpc":"2.0","method":"n","params":{"subscription":"A","result":k}});
				// cap notifications fill the buffer, the next one is discarded
				let first: Vec<Value> = (0..=cap as u64).map(n).collect();
				if packed { peer.send(&Value::Array(first).to_string()); } else { for v in first { peer.send(&v.to_string()); } }
				peer.send(&json!({"jsonrpc":"2.0","method":"fence","params":[1]}).to_string());
				let _ = tokio::time::timeout(Duration::from_secs(2), fence.next()).await;
				// the consumer takes one item: there is room again
				let got0 = tokio::time::timeout(Duration::from_secs(1), sub.next()).await;
				let desc = format!("buffer {cap}, notifications 0..={cap} sent {} while the send task is inside a slow transport send (so {cap} is discarded); the consumer reads one; the server sends {}", if packed {"in one array"} else {"singly"}, cap + 1);
				if !matches!(got0, Ok(Some(Ok(0)))) {
					return fail(desc, format!("first item: {:?}", got0.map(|o| o.map(|r| r.map_err(|e| e.to_string())))));
				}
				peer.send(&n(cap as u64 + 1).to_string());
				peer.send(&json!({"jsonrpc":"2.0","method":"fence","params":[2]}).to_string());
				let _ = tokio::time::timeout(Duration::from_secs(2), fence.next()).await;
				let mut seen = vec![0u64];
				loop {
					match tokio::time::timeout(Duration::from_millis(250), sub.next()).await {
						Ok(Some(Ok(v))) => seen.push(v),
						_ => break,
					}
				}
				gate.notify_one();
				let _ = blocked;
				let want: Vec<u64> = (0..cap as u64).collect();
				if seen != want {
					return fail(desc, format!("the stream yielded {seen:?}"));
				}
			}
		}
		json!({"probe":"client_lagged_stream_no_holes","disagrees":false,"inputs_tried":tried,"bound":"buffers 1..3, single / array delivery, one notification after the discarded one"})
	})
}

/// C03 / C12: the ids that calls, subscribes and batch entries have on the wire while they are pending together are pairwise
/// distinct (both clients), and an answer to an entry of one batch never completes another batch.
pub fn client_pending_ids_distinct() -> Value {
	use jsonrpsee_core::client::IdKind;
	// op: 0 = call, 1 = subscribe, n >= 2 = batch of n-1 entries... spelled out below
	#[derive(Clone, Copy, Debug)]
	enum Op { Call, Subscribe, Batch(usize) }
	let histories: Vec<Vec<Op>> = vec![
		vec![Op::Batch(3), Op::Call],
		vec![Op::Batch(2), Op::Batch(1)],
		vec![Op::Call, Op::Batch(3), Op::Call, Op::Batch(2), Op::Call],
		vec![Op::Batch(2), Op::Subscribe, Op::Batch(2), Op::Call],
		vec![Op::Subscribe, Op::Batch(4), Op::Subscribe, Op::Batch(1), Op::Batch(3)],
		vec![Op::Batch(1), Op::Batch(1), Op::Call],
	];
	let fail = |input: String, obs: String, exp: &str| json!({"probe":"client_pending_ids_distinct","disagrees":true,"input":input,"observed":obs,"expected":exp});
	let mut tried = 0u64;
	// ---- the async (WS) client over the in-memory transport: nothing is answered, so everything stays pending
	let r = rt().block_on(async {
		for kind in [IdKind::Number, IdKind::String] {
			for h in &histories {
				let (c, mut peer) = mock::client(ClientBuilder::default().id_format(kind));
				let c = std::sync::Arc::new(c);
				let mut seen: Vec<(usize, Value)> = Vec::new();
				let mut tasks = Vec::new();
				for (k, op) in h.iter().enumerate() {
					let c2 = c.clone();
					match *op {
						Op::Call => tasks.push(tokio::spawn(async move { let _ = c2.request::<String, _>("m", rpc_params![]).await; })),
						Op::Subscribe => tasks.push(tokio::spawn(async move { let _ = c2.subscribe::<String, _>("sub", rpc_params![], "unsub").await; })),
						Op::Batch(n) => tasks.push(tokio::spawn(async move {
							let mut b = BatchRequestBuilder::new();
							for i in 0..n { b.insert("m", rpc_params![i]).unwrap(); }
							let _ = c2.batch_request::<String>(b).await;
						})),
					}
					let Some(m) = peer.next().await else { return Some(fail(format!("{kind:?} ids, operations {h:?} started one after the other, none answered"), format!("operation {k} put nothing on the wire"), "a message")); };
					let v: Value = serde_json::from_str(&m).unwrap();
					match v {
						Value::Array(es) => for e in es { seen.push((k, e["id"].clone())); },
						o => seen.push((k, o["id"].clone())),
					}
				}
				for a in 0..seen.len() {
					for b in a + 1..seen.len() {
						if seen[a].1 == seen[b].1 {
							return Some(fail(format!("async client, {kind:?} ids, operations {h:?} started one after the other, none answered"),
								format!("operations {} and {} both put the id {} on the wire while pending", seen[a].0, seen[b].0, seen[a].1),
								"pairwise distinct ids for calls / batch entries pending together"));
						}
					}
				}
				for t in tasks { t.abort(); }
			}
		}
		// an answer to ONE entry of batch A (its other answer omitted) must not complete batch B
		for kind in [IdKind::Number, IdKind::String] {
			let (c, mut peer) = mock::client(ClientBuilder::default().id_format(kind));
			let c = std::sync::Arc::new(c);
			let (ca, cb) = (c.clone(), c.clone());
			let fa = tokio::spawn(async move {
				let mut b = BatchRequestBuilder::new();
				b.insert("a0", rpc_params![]).unwrap();
				b.insert("a1", rpc_params![]).unwrap();
				ca.batch_request::<String>(b).await
			});
			let ma: Value = serde_json::from_str(&peer.next().await.unwrap()).unwrap();
			let fb = tokio::spawn(async move {
				let mut b = BatchRequestBuilder::new();
				b.insert("b0", rpc_params![]).unwrap();
				cb.batch_request::<String>(b).await
			});
			let _mb = peer.next().await.unwrap();
			peer.send(&json!([{"jsonrpc":"2.0","id":ma[1]["id"],"result":"answer-to-a1"}]).to_string());
			let rb = tokio::time::timeout(std::time::Duration::from_millis(400), fb).await;
			if let Ok(Ok(Ok(br))) = rb {
				let got: Vec<_> = br.into_iter().collect();
				if got.iter().any(|e| e.as_ref().ok().map(|s| s.as_str()) == Some("answer-to-a1")) {
					return Some(fail(format!("async client, {kind:?} ids: batch A = [a0, a1] and batch B = [b0] pending; the server sends only [answer to a1]"),
						format!("batch B completed with {got:?}"), "B is not completed by an answer to A's entry"));
				}
			}
			fa.abort();
		}
		None
	});
	if let Some(f) = r { return f; }
	tried += 2 * histories.len() as u64 + 2;
	// ---- the HTTP client: a middleware records the ids and answers late, so the operations are pending together
	{
		use jsonrpsee_core::client::{Error, MiddlewareBatchResponse, MiddlewareMethodResponse, MiddlewareNotifResponse};
		use jsonrpsee_core::middleware::{Batch, BatchEntry, Notification, RpcServiceBuilder, RpcServiceT};
		use jsonrpsee_http_client::HttpClientBuilder;
		use jsonrpsee_types::Request;
		use std::sync::{Arc, Mutex};
		#[derive(Clone)]
		struct Rec<S> { inner: S, ids: Arc<Mutex<Vec<(u64, String)>>>, opno: Arc<std::sync::atomic::AtomicU64> }
		impl<S> RpcServiceT for Rec<S>
		where
			S: RpcServiceT<MethodResponse = Result<MiddlewareMethodResponse, Error>, BatchResponse = Result<MiddlewareBatchResponse, Error>, NotificationResponse = Result<MiddlewareNotifResponse, Error>> + Send + Sync + Clone + 'static,
		{
			type MethodResponse = Result<MiddlewareMethodResponse, Error>;
			type BatchResponse = Result<MiddlewareBatchResponse, Error>;
			type NotificationResponse = Result<MiddlewareNotifResponse, Error>;
			fn call<'a>(&self, request: Request<'a>) -> impl Future<Output = Self::MethodResponse> + Send + 'a {
				let k = self.opno.fetch_add(1, std::sync::atomic::Ordering::SeqCst);
				self.ids.lock().unwrap().push((k, serde_json::to_string(&request.id).unwrap()));
				async move {
					tokio::time::sleep(std::time::Duration::from_millis(250)).await;
					Err(Error::Custom("not answered".into()))
				}
			}
			fn batch<'a>(&self, requests: Batch<'a>) -> impl Future<Output = Self::BatchResponse> + Send + 'a {
				let k = self.opno.fetch_add(1, std::sync::atomic::Ordering::SeqCst);
				for e in requests.iter() {
					if let Ok(BatchEntry::Call(r)) = e {
						self.ids.lock().unwrap().push((k, serde_json::to_string(&r.id).unwrap()));
					}
				}
				async move {
					tokio::time::sleep(std::time::Duration::from_millis(250)).await;
					Err(Error::Custom("not answered".into()))
				}
			}
			fn notification<'a>(&self, n: Notification<'a>) -> impl Future<Output = Self::NotificationResponse> + Send + 'a {
				self.inner.notification(n)
			}
		}
		let r = rt().block_on(async {
			for kind in [IdKind::Number, IdKind::String] {
				for h in &histories {
					if h.iter().any(|o| matches!(o, Op::Subscribe)) { continue; }
					let ids = Arc::new(Mutex::new(Vec::new()));
					let opno = Arc::new(std::sync::atomic::AtomicU64::new(0));
					let (ids2, opno2) = (ids.clone(), opno.clone());
					let mw = RpcServiceBuilder::new().layer_fn(move |inner| Rec { inner, ids: ids2.clone(), opno: opno2.clone() });
					let client = Arc::new(HttpClientBuilder::default().id_format(kind).set_rpc_middleware(mw).build("http://127.0.0.1:9").unwrap());
					let mut tasks = Vec::new();
					for (k, op) in h.iter().enumerate() {
						let c2 = client.clone();
						match *op {
							Op::Batch(n) => tasks.push(tokio::spawn(async move {
								let mut b = BatchRequestBuilder::new();
								for i in 0..n { b.insert("m", rpc_params![i]).unwrap(); }
								let _ = c2.batch_request::<String>(b).await;
							})),
							_ => tasks.push(tokio::spawn(async move { let _ = c2.request::<String, _>("m", rpc_params![]).await; })),
						}
						// started one after the other: wait until this operation reached the middleware
						for _ in 0..200 {
							if opno.load(std::sync::atomic::Ordering::SeqCst) > k as u64 { break; }
							tokio::time::sleep(std::time::Duration::from_millis(1)).await;
						}
					}
					let seen = ids.lock().unwrap().clone();
					for a in 0..seen.len() {
						for b in a + 1..seen.len() {
							if seen[a].1 == seen[b].1 {
								return Some(fail(format!("HTTP client, {kind:?} ids, operations {h:?} started one after the other, all pending for 250 ms"),
									format!("operations {} and {} both put the id {} on the wire while pending", seen[a].0, seen[b].0, seen[a].1),
									"pairwise distinct ids for calls / batch entries pending together"));
							}
						}
					}
					for t in tasks { let _ = t.await; }
				}
			}
			None
		});
		if let Some(f) = r { return f; }
		tried += 8;
	}
	json!({"probe":"client_pending_ids_distinct","disagrees":false,"inputs_tried":tried,"bound":"6 operation sequences (calls, subscribes, batches of 1..4) x 2 id kinds on the async client, 4 x 2 on the HTTP client; one cross-batch answer history per id kind"})
}

/// C03 (HTTP client): a single call completes with a value or an error object only from a reply carrying the call's own id.
pub fn http_client_single_reply_id() -> Value {
	use jsonrpsee_core::client::{Error, MiddlewareBatchResponse, MiddlewareMethodResponse, MiddlewareNotifResponse, RawResponseOwned};
	use jsonrpsee_core::middleware::{Batch, Notification, RpcServiceBuilder, RpcServiceT};
	use jsonrpsee_http_client::HttpClientBuilder;
	use jsonrpsee_types::{ErrorObject, Id, Request, Response, ResponsePayload};
	use std::sync::{Arc, Mutex};
	#[derive(Clone)]
	struct One<S> {
		inner: S,
		mode: Arc<Mutex<(usize, bool)>>,
	}
	const ID_FORMS: [&str; 6] = ["the call's own id", "own id + 1", "own id + 99", "the own id's digits as a string", "null", "own id - 1"];
	impl<S> RpcServiceT for One<S>
	where
		S: RpcServiceT<MethodResponse = Result<MiddlewareMethodResponse, Error>, BatchResponse = Result<MiddlewareBatchResponse, Error>, NotificationResponse = Result<MiddlewareNotifResponse, Error>> + Send + Sync + Clone + 'static,
	{
		type MethodResponse = Result<MiddlewareMethodResponse, Error>;
		type BatchResponse = Result<MiddlewareBatchResponse, Error>;
		type NotificationResponse = Result<MiddlewareNotifResponse, Error>;
		fn call<'a>(&self, request: Request<'a>) -> impl Future<Output = Self::MethodResponse> + Send + 'a {
			let own = match request.id { Id::Number(n) => n, _ => 0 };
			let (form, is_err) = *self.mode.lock().unwrap();
			async move {
				let id: Id<'static> = match form {
					0 => Id::Number(own),
					1 => Id::Number(own + 1),
					2 => Id::Number(own + 99),
					3 => Id::Str(own.to_string().into()),
					4 => Id::Null,
					_ => Id::Number(own.wrapping_sub(1)),
				};
				let payload = if is_err {
					ResponsePayload::error(ErrorObject::owned(-32000, format!("error addressed to {id:?}"), Some("d")))
				} else {
					ResponsePayload::success(serde_json::value::to_raw_value(&format!("value addressed to {id:?}")).unwrap())
				};
				let rp: Response<'static, Box<serde_json::value::RawValue>> = Response::new(payload, id);
				let raw: RawResponseOwned = rp.into();
				Ok(MiddlewareMethodResponse::response(raw))
			}
		}
		fn batch<'a>(&self, requests: Batch<'a>) -> impl Future<Output = Self::BatchResponse> + Send + 'a {
			self.inner.batch(requests)
		}
		fn notification<'a>(&self, n: Notification<'a>) -> impl Future<Output = Self::NotificationResponse> + Send + 'a {
			self.inner.notification(n)
		}
	}
	let mode = Arc::new(Mutex::new((0usize, false)));
	let mode2 = mode.clone();
	rt().block_on(async move {
		let mw = RpcServiceBuilder::new().layer_fn(move |inner| One { inner, mode: mode2.clone() });
		let client = HttpClientBuilder::default().set_rpc_middleware(mw).build("http://127.0.0.1:9").unwrap();
		let mut tried = 0u64;
		for warm in 0..3usize {
			for form in 0..ID_FORMS.len() {
				for is_err in [false, true] {
					tried += 1;
					*mode.lock().unwrap() = (form, is_err);
					let r = client.request::<String, _>("m", rpc_params![]).await;
					let desc = format!("HTTP client, call number {} of the client; the reply is {} carrying {}", warm * ID_FORMS.len() * 2 + form * 2 + is_err as usize, if is_err { "an error" } else { "a result" }, ID_FORMS[form]);
					let bad = match (&r, form, is_err) {
						(Ok(v), 0, false) if v.starts_with("value addressed to") => None,
						(Err(Error::Call(e)), 0, true) if e.code() == -32000 && e.message().starts_with("error addressed to") && e.data().map(|d| d.get()) == Some("\"d\"") => None,
						(_, 0, _) => Some(format!("{r:?}")),
						(Ok(v), _, _) => Some(format!("the call completed with the value {v:?}")),
						(Err(Error::Call(e)), _, _) => Some(format!("the call completed with the error object {e:?}")),
						(Err(_), _, _) => None,
					};
					if let Some(obs) = bad {
						return json!({"probe":"http_client_single_reply_id","disagrees":true,"input":desc,"observed":obs,
							"expected": if form == 0 { "the value / error object that reply carried" } else { "a reply bearing another id completes no call: an error that is not the reply's error object" }});
					}
				}
			}
		}
		json!({"probe":"http_client_single_reply_id","disagrees":false,"inputs_tried":tried,"bound":"36 consecutive calls; reply id in {own, own+1, own+99, own as string, null, own-1} x {result, error}"})
	})
}

/// C12 (HTTP client): every reply sequence of length 1..=3 over ids start-1..=start+3 for a batch of 3 (after a warm-up call).
pub fn http_client_batch_positional() -> Value {
	use jsonrpsee_http_client::HttpClientBuilder;
	use jsonrpsee_core::middleware::RpcServiceBuilder;
	let rel_ids = std::sync::Arc::new(std::sync::Mutex::new(Vec::<i64>::new()));
	let rel2 = rel_ids.clone();
	rt().block_on(async move {
		let mw = RpcServiceBuilder::new().layer_fn(move |inner| http_mock::Canned { inner, rel_ids: rel2.clone() });
		let client = HttpClientBuilder::default().set_rpc_middleware(mw).build("http://127.0.0.1:9").unwrap();
		let _ = client.request::<String, _>("warm", rpc_params![]).await;
		let n = 3usize;
		let mut tried = 0u64;
		for len in 1..=3usize {
			for code in 0..5usize.pow(len as u32) {
				let mut c = code;
				let mut rel = Vec::new();
				for _ in 0..len {
					rel.push((c % 5) as i64 - 1);
					c /= 5;
				}
				tried += 1;
				*rel_ids.lock().unwrap() = rel.clone();
				let mut b = BatchRequestBuilder::new();
				for k in 0..n {
					b.insert("m", rpc_params![k]).unwrap();
				}
				if let Ok(br) = client.batch_request::<String>(b).await {
					let ok = br.num_successful_calls();
					let failed = br.num_failed_calls();
					let entries: Vec<Result<String, String>> = br.into_iter().map(|e| e.map_err(|e| e.message().to_string())).collect();
					let mut bad = None;
					if entries.len() != n {
						bad = Some(format!("returned {} entries for a batch of {}", entries.len(), n));
					}
					for (i, e) in entries.iter().enumerate() {
						if let Ok(v) = e {
							// the value names the absolute id it was sent under: it must be (some start) + i, i.e. relative id i
							let sent_rel: Vec<i64> = rel.iter().enumerate().filter(|(pos, _)| v.ends_with(&format!("#pos{}", pos))).map(|(_, r)| *r).collect();
							if sent_rel.first() != Some(&(i as i64)) {
								bad = Some(format!("entry {i} holds {v:?}, which was sent under relative id {:?}", sent_rel));
							}
						}
					}
					let n_ok = entries.iter().filter(|e| e.is_ok()).count();
					if bad.is_none() && (ok != n_ok || failed != entries.len() - n_ok) {
						bad = Some(format!("counts ({ok} ok, {failed} failed) do not match entries {entries:?}"));
					}
					if let Some(why) = bad {
						return json!({"probe":"http_client_batch_positional","disagrees":true,
							"input": format!("HTTP client, one earlier call, then a batch of {n}; reply ids relative to the batch start: {:?}", rel),
							"observed": why, "expected":"the call fails, or exactly 3 entries with entry i filled only by the reply carrying id start+i"});
					}
				}
			}
		}
		json!({"probe":"http_client_batch_positional","disagrees":false,"reply_sequences_tried":tried,"bound":"batch of 3 after a warm-up call; all reply sequences of length 1..3 over ids start-1..=start+3"})
	})
}

// ------------------------------------------------------------------------------------------
/// POST `body` to the real server's tower service in-process; returns (status, body text).
async fn post_in_process(cfg: jsonrpsee_server::ServerConfig, body: &str) -> (u16, String) {
	use http_body_util::BodyExt;
	use tower::Service;
	let (stop_handle, _server_handle) = jsonrpsee_server::stop_channel();
	let mut module = RpcModule::new(());
	module.register_method("add", |p, _, _| { let v: Vec<u64> = p.parse().unwrap_or_default(); v.iter().sum::<u64>() }).unwrap();
	module.register_method("echo", |p, _, _| p.one::<String>().unwrap_or_default()).unwrap();
	module.register_blocking_method("boom", |_, _, _| -> u64 { panic!("handler panics") }).unwrap();
	module.register_async_method("aadd", |p, _, _| async move { let v: Vec<u64> = p.parse().unwrap_or_default(); v.iter().sum::<u64>() }).unwrap();
	let mut svc = jsonrpsee_server::Server::builder().set_config(cfg).to_service_builder().build(module, stop_handle);
	let req = http::Request::builder().method("POST").uri("http://localhost/").header("content-type", "application/json")
		.body(jsonrpsee_server::HttpBody::from(body.to_string())).unwrap();
	let rp = svc.call(req).await.unwrap();
	let status = rp.status().as_u16();
	let bytes = rp.into_body().collect().await.map(|b| b.to_bytes()).unwrap_or_default();
	(status, String::from_utf8_lossy(&bytes).to_string())
}

/// C01 / C02: classification and answers of single messages and batches over HTTP (in-process tower service).
pub fn server_message_classification() -> Value {
	rt().block_on(async {
		// (message, expected reply as JSON; Null = no reply (empty or `null` body))
		let err = |code: i64, id: Value| json!({"code": code, "id": id});
		let cases: Vec<(&str, Value)> = vec![
			(r#"{"jsonrpc":"2.0","id":7,"method":"add","params":[1,2]}"#, json!({"result":3,"id":7})),
			(r#"  {"jsonrpc":"2.0","id":"s","method":"aadd","params":[4,5]}"#, json!({"result":9,"id":"s"})),
			(r#"{"jsonrpc":"2.0","id":null,"method":"add","params":[1]}"#, json!({"result":1,"id":null})),
			(r#"{"jsonrpc":"2.0","id":7,"method":"add","params":[1,2]}"#, json!({"result":3,"id":7})),
			(r#"{"jsonrpc":"2.0","id":18446744073709551615,"method":"add","params":[]}"#, json!({"result":0,"id":18446744073709551615u64})),
			(r#"{"jsonrpc":"2.0","id":1,"method":"nope"}"#, err(-32601, json!(1))),
			// JSON-equivalent spellings of a valid call: escaped member names / method name, reordered and unknown members
			(r#"{"jsonrpc":"2.0","\u0069d":7,"method":"add","params":[1,2]}"#, json!({"result":3,"id":7})),
			(r#"{"\u006asonrpc":"2.0","id":8,"\u006dethod":"a\u0064d","p\u0061rams":[1,2]}"#, json!({"result":3,"id":8})),
			(r#"{"params":[2,2],"method":"add","extra":{"id":99},"id":5,"jsonrpc":"2.0"}"#, json!({"result":4,"id":5})),
			(r#"{"jsonrpc":"2\u002e0","id":7,"method":"add","params":[1,2]}"#, json!({"result":3,"id":7})),
			(r#"{"jsonrpc":"\u0032.0","id":"v","method":"aadd","params":[1,2]}"#, json!({"result":3,"id":"v"})),
			(r#"{"jsonrpc":"2.\u0030","method":"add","params":[1,2]}"#, Value::Null),
			(r#"[{"jsonrpc":"2\u002e0","id":1,"method":"add","params":[1]},{"jsonrpc":"2.\u0030","method":"add","params":[1,2]}]"#, json!([{"result":1,"id":1}])),
			("{\n\t\"jsonrpc\" : \"2.0\" ,\r\n \"id\" : 6 , \"method\" : \"add\" , \"params\" : [ 1 , 2 ] }\n", json!({"result":3,"id":6})),
			(r#"{"jsonrpc":"2.0","id":41,"method":"boom"}"#, err(-32603, json!(41))),
			(r#"{"jsonrpc":"2.0","id":"forty-two","method":"boom"}"#, err(-32603, json!("forty-two"))),
			(r#"{"jsonrpc":"2.0","method":"add","params":[1,2]}"#, Value::Null),
			// an id outside the id domain (null, u64, string) is treated as absent: the message is a notification
			(r#"{"jsonrpc":"2.0","id":-1,"method":"add","params":[1,2]}"#, Value::Null),
			(r#"{"jsonrpc":"2.0","id":1.5,"method":"add","params":[1,2]}"#, Value::Null),
			(r#"{"jsonrpc":"2.0","id":true,"method":"add","params":[1,2]}"#, Value::Null),
			(r#"{"jsonrpc":"2.0","id":[1],"method":"add","params":[1,2]}"#, Value::Null),
			(r#"{"jsonrpc":"2.0","id":{"a":1},"method":"add","params":[1,2]}"#, Value::Null),
			(r#"{"jsonrpc":"2.0","id":18446744073709551616,"method":"add","params":[1,2]}"#, Value::Null),
			(r#"{"jsonrpc":"2.0","method":"add","params":[1,2],"extra":true}"#, Value::Null),
			(r#"{"jsonrpc":"2.0","id":3}"#, err(-32600, json!(3))),
			(r#"{"jsonrpc":"2.0","id":"abc","foo":1}"#, err(-32600, json!("abc"))),
			(r#"{"foo":1}"#, err(-32700, Value::Null)),
			(r#"{"jsonrpc":"2.0","id":1,"method":"add","params":[1,2]}x"#, err(-32700, Value::Null)),
			(r#"{"jsonrpc":"2.0","id":1,"method":"add","params":[1,2]}}"#, err(-32700, Value::Null)),
			(r#"{"jsonrpc":"2.0","id":1,"method":"add","params":[1,2]}{"jsonrpc":"2.0","id":2,"method":"add","params":[1]}"#, err(-32700, Value::Null)),
			(r#"{"jsonrpc":"2.0","id":1,"method":"add""#, err(-32700, Value::Null)),
			// whitespace that is not JSON whitespace (form feed, vertical tab, NBSP) in front of a valid call: the text is not JSON
			("\x0c{\"jsonrpc\":\"2.0\",\"id\":1,\"method\":\"add\",\"params\":[1,2]}", err(-32700, Value::Null)),
			(" \n\x0c\t\x0c {\"jsonrpc\":\"2.0\",\"id\":1,\"method\":\"add\",\"params\":[1,2]}", err(-32700, Value::Null)),
			("\x0b{\"jsonrpc\":\"2.0\",\"id\":1,\"method\":\"add\",\"params\":[1,2]}", err(-32700, Value::Null)),
			("\x0c[{\"jsonrpc\":\"2.0\",\"id\":1,\"method\":\"add\",\"params\":[1,2]}]", err(-32700, Value::Null)),
			("\u{a0}{\"jsonrpc\":\"2.0\",\"id\":1,\"method\":\"add\",\"params\":[1,2]}", err(-32700, Value::Null)),
			// an object that REPEATS the id member has an id member: it is not a notification, it is answered (as JSON that is no request)
			(r#"{"jsonrpc":"2.0","id":1,"id":1,"method":"add","params":[1,2]}"#, err(-32700, Value::Null)),
			(r#"{"jsonrpc":"2.0","id":1,"id":2,"method":"add","params":[1,2]}"#, err(-32700, Value::Null)),
			(r#"{"jsonrpc":"2.0","id":{},"id":1,"method":"add","params":[1,2]}"#, err(-32700, Value::Null)),
			(r#"{"jsonrpc":"2.0","id":1,"method":"add","params":[1,2],"id":[]}"#, err(-32700, Value::Null)),
			(r#"[{"jsonrpc":"2.0","id":1,"id":1,"method":"add","params":[1,2]},{"jsonrpc":"2.0","id":2,"method":"add","params":[1]}]"#, json!([{"code":-32600,"id":null},{"result":1,"id":2}])),
			// batches
			(r#"[{"jsonrpc":"2.0","id":1,"method":"add","params":[1,2]},{"jsonrpc":"2.0","method":"add","params":[1]},{"jsonrpc":"2.0","id":9}]"#, json!([{"result":3,"id":1}, {"code":-32600,"id":9}])),
			(r#"[{"jsonrpc":"2.0","method":"add","params":[1]},{"foo":"boo"}]"#, json!([{"code":-32600,"id":null}])),
			(r#"[123,{"jsonrpc":"2.0","method":"add","params":[1]}]"#, json!([{"code":-32600,"id":null}])),
			(r#"[1,{"jsonrpc":"2.0","method":"add"},{"jsonrpc":"2.0","id":9}]"#, json!([{"code":-32600,"id":null},{"code":-32600,"id":9}])),
			(r#"[{"jsonrpc":"2.0","method":"add","params":[1]},{"jsonrpc":"2.0","method":"add"}]"#, Value::Null),
			// entries that are not objects are invalid requests with id null — also when serde could read a struct out of an array
			(r#"[["2.0",77,"add",[1,2]]]"#, json!([{"code":-32600,"id":null}])),
			(r#"[["2.0","add",[1,2]]]"#, json!([{"code":-32600,"id":null}])),
			(r#"[{"jsonrpc":"2.0","id":1,"method":"add","params":[1]},[1]]"#, json!([{"result":1,"id":1},{"code":-32600,"id":null}])),
			(r#"[["x"], "add", 5, null, true]"#, json!([{"code":-32600,"id":null},{"code":-32600,"id":null},{"code":-32600,"id":null},{"code":-32600,"id":null},{"code":-32600,"id":null}])),
			(r#"[]"#, err(-32600, Value::Null)),
			(r#"[{"jsonrpc":"2.0","id":1,"method":"add","params":[1,2]},{"jsonrpc":"2.0","id":2,"method":"echo","params":["x"]},{"jsonrpc":"2.0","id":3,"method":"aadd","params":[5]}]"#, json!([{"result":3,"id":1},{"result":"x","id":2},{"result":5,"id":3}])),
		];
		fn shape(v: &Value) -> Value {
			match v {
				Value::Array(a) => Value::Array(a.iter().map(shape).collect()),
				Value::Object(o) if o.contains_key("error") => json!({"code": o["error"]["code"], "id": o["id"]}),
				Value::Object(o) if o.contains_key("result") => json!({"result": o["result"], "id": o["id"]}),
				other => other.clone(),
			}
		}
		let mut tried = 0;
		for (msg, want) in &cases {
			tried += 1;
			let (status, body) = post_in_process(jsonrpsee_server::ServerConfig::default(), msg).await;
			let got = if body.trim().is_empty() { Value::Null } else { serde_json::from_str::<Value>(&body).map(|v| shape(&v)).unwrap_or(json!({"unparsable": body})) };
			let well_formed = body.trim().is_empty() || serde_json::from_str::<Value>(&body).map(|v| match &v { Value::Array(a) => a.iter().all(|e| e["jsonrpc"] == json!("2.0")), Value::Null => true, o => o["jsonrpc"] == json!("2.0") }).unwrap_or(false);
			if &got != want || !well_formed {
				return json!({"probe":"server_message_classification","disagrees":true,"input":msg,"observed":format!("HTTP {status}: {body}"),"expected":want.to_string()});
			}
		}
		// batch limit: exactly `limit` entries pass, one more is answered -32010; disabled batches -32005
		for (n, limit, want_code) in [(3usize, 3u32, None), (4, 3, Some(-32010)), (1, 1, None), (2, 1, Some(-32010))] {
			tried += 1;
			let entries: Vec<Value> = (0..n).map(|i| json!({"jsonrpc":"2.0","id":i,"method":"add","params":[i]})).collect();
			let cfg = jsonrpsee_server::ServerConfig::builder().set_batch_request_config(jsonrpsee_server::BatchRequestConfig::Limit(limit)).build();
			let (_s, body) = post_in_process(cfg, &Value::Array(entries).to_string()).await;
			let v: Value = serde_json::from_str(&body).unwrap_or(Value::Null);
			let ok = match want_code { None => v.as_array().map(|a| a.len() == n && a.iter().enumerate().all(|(i, e)| e["result"] == json!(i))).unwrap_or(false), Some(c) => v["error"]["code"] == json!(c) && v["id"].is_null() };
			if !ok {
				return json!({"probe":"server_message_classification","disagrees":true,"input":format!("batch of {n} calls with BatchRequestConfig::Limit({limit})"),"observed":body,
					"expected": match want_code { None => "an array with the n results in order".to_string(), Some(c) => format!("one error {c} with id null") }});
			}
		}
		{
			tried += 1;
			let cfg = jsonrpsee_server::ServerConfig::builder().set_batch_request_config(jsonrpsee_server::BatchRequestConfig::Disabled).build();
			let (_s, body) = post_in_process(cfg, r#"[{"jsonrpc":"2.0","id":1,"method":"add","params":[1]}]"#).await;
			let v: Value = serde_json::from_str(&body).unwrap_or(Value::Null);
			if v["error"]["code"] != json!(-32005) || !v["id"].is_null() {
				return json!({"probe":"server_message_classification","disagrees":true,"input":"batch while batching is disabled","observed":body,"expected":"one error -32005 with id null"});
			}
		}
		json!({"probe":"server_message_classification","disagrees":false,"inputs_tried":tried})
	})
}

/// C09: when a send fails, the call whose own message failed (and earlier pending ones) complete with the disconnect CAUSE —
/// never with the placeholder saying the cause is unknown.
pub fn client_send_failure_reports_cause() -> Value {
	for (what, fail_at, threads, close_fails) in [("call", 1usize, 1usize, false), ("call", 1, 4, false), ("second call", 2, 1, false), ("batch", 1, 1, false), ("subscribe", 1, 1, false), ("call", 1, 1, true), ("second call", 2, 1, true)] {
		let rt = tokio::runtime::Builder::new_multi_thread().worker_threads(threads).enable_all().build().unwrap();
		let out = rt.block_on(async move {
			let (c, _peer) = mock::failing_client2(ClientBuilder::default().request_timeout(std::time::Duration::from_secs(3)), fail_at, close_fails);
			let c = std::sync::Arc::new(c);
			let mut errs: Vec<String> = Vec::new();
			if what == "second call" {
				let c2 = c.clone();
				let first = tokio::spawn(async move { c2.request::<u64, _>("first", rpc_params![]).await });
				tokio::time::sleep(std::time::Duration::from_millis(20)).await;
				let second = c.request::<u64, _>("second", rpc_params![]).await;
				errs.push(format!("{:?}", second.map_err(|e| e.to_string())));
				errs.push(format!("{:?}", tokio::time::timeout(std::time::Duration::from_secs(3), first).await.map(|r| r.map(|x| x.map_err(|e| e.to_string())))));
			} else if what == "batch" {
				let mut b = BatchRequestBuilder::new();
				b.insert("a", rpc_params![]).unwrap();
				errs.push(format!("{:?}", c.batch_request::<u64>(b).await.map(|_| ()).map_err(|e| e.to_string())));
			} else if what == "subscribe" {
				errs.push(format!("{:?}", c.subscribe::<u64, _>("s", rpc_params![], "u").await.map(|_| ()).map_err(|e| e.to_string())));
			} else {
				errs.push(format!("{:?}", c.request::<u64, _>("m", rpc_params![]).await.map_err(|e| e.to_string())));
			}
			let disc = tokio::time::timeout(std::time::Duration::from_secs(3), c.on_disconnect()).await;
			errs.push(format!("on_disconnect: {:?}", disc.map(|_| "resolved")));
			errs
		});
		let joined = out.join(" | ");
		if joined.contains("could not be found") || !joined.contains("broken pipe") || joined.contains("Elapsed") || joined.contains("timeout") {
			return json!({"probe":"client_send_failure_reports_cause","disagrees":true,
				"input": format!("{what}: the transport's send fails with 'broken pipe' on message #{fail_at}; close() takes 50 ms{}; {threads} worker thread(s)", if close_fails {" and then fails too"} else {""}),
				"observed": joined, "expected":"every affected call fails with an error carrying the cause (broken pipe); on_disconnect resolves"});
		}
	}
	// the window while the transport's close() is still running: a watcher registered BEFORE the fault, and a call issued
	// 10 ms after it (close() takes 50 ms), must both get the cause — the front end may learn that the connection is gone only
	// once the cause has been recorded
	for threads in [1usize, 4] {
		let rt = tokio::runtime::Builder::new_multi_thread().worker_threads(threads).enable_all().build().unwrap();
		let out = rt.block_on(async move {
			let (c, _peer) = mock::failing_client2(ClientBuilder::default().request_timeout(std::time::Duration::from_secs(3)), 1, false);
			let c = std::sync::Arc::new(c);
			let cw = c.clone();
			let watcher = tokio::spawn(async move { cw.on_disconnect().await.to_string() });
			tokio::time::sleep(std::time::Duration::from_millis(10)).await;
			let c1 = c.clone();
			let failing = tokio::spawn(async move { c1.request::<u64, _>("m", rpc_params![]).await.map_err(|e| e.to_string()) });
			tokio::time::sleep(std::time::Duration::from_millis(10)).await;
			let during = c.request::<u64, _>("during_close", rpc_params![]).await.map_err(|e| e.to_string());
			let mut errs = vec![format!("call during close(): {during:?}")];
			errs.push(format!("watcher registered before the fault: {:?}", tokio::time::timeout(std::time::Duration::from_secs(3), watcher).await.map(|r| r.unwrap_or_default())));
			errs.push(format!("failing call: {:?}", tokio::time::timeout(std::time::Duration::from_secs(3), failing).await.map(|r| r.ok())));
			errs
		});
		let joined = out.join(" | ");
		if joined.contains("could not be found") || joined.matches("broken pipe").count() < 3 || joined.contains("Elapsed") {
			return json!({"probe":"client_send_failure_reports_cause","disagrees":true,
				"input": format!("an on_disconnect() watcher is registered; 10 ms later a call's send fails with 'broken pipe'; 10 ms later (close() takes 50 ms) another call is issued; {threads} worker thread(s)"),
				"observed": joined, "expected":"the watcher, the failing call and the call issued during close() all report the cause (broken pipe) — never the placeholder"});
		}
	}
	// the receive side: a watcher registered before, a call pending and a call issued after the fault all get the cause — for a
	// transport receive error and for a message that is no JSON-RPC message
	for (what, needle) in [("the transport's receive fails with 'reset by peer'", "reset by peer"), ("the server sends the text `garbage`", "")] {
		let rt = tokio::runtime::Builder::new_multi_thread().worker_threads(2).enable_all().build().unwrap();
		let out = rt.block_on(async move {
			let (c, mut peer) = mock::client(ClientBuilder::default().request_timeout(std::time::Duration::from_secs(3)));
			let c = std::sync::Arc::new(c);
			let cw = c.clone();
			let watcher = tokio::spawn(async move { cw.on_disconnect().await.to_string() });
			let c1 = c.clone();
			let pending = tokio::spawn(async move { c1.request::<u64, _>("m", rpc_params![]).await.map_err(|e| e.to_string()) });
			let _ = peer.next().await;
			if needle.is_empty() { peer.send("garbage"); } else { let _ = peer.to_client.send(Err(needle.to_string())); }
			let w = tokio::time::timeout(std::time::Duration::from_secs(3), watcher).await.map(|r| r.unwrap_or_default());
			let p = tokio::time::timeout(std::time::Duration::from_secs(3), pending).await.map(|r| r.ok());
			let later = c.request::<u64, _>("later", rpc_params![]).await.map_err(|e| e.to_string());
			vec![format!("watcher: {w:?}"), format!("pending call: {p:?}"), format!("later call: {later:?}")]
		});
		let joined = out.join(" | ");
		if joined.contains("could not be found") || joined.contains("Elapsed") || joined.matches("restart required").count() < 3 || (!needle.is_empty() && joined.matches(needle).count() < 3) {
			return json!({"probe":"client_send_failure_reports_cause","disagrees":true,
				"input": format!("an on_disconnect() watcher and a call are pending; {what}; then another call is issued"),
				"observed": joined, "expected":"the watcher, the pending call and the later call all report the disconnect cause — never the placeholder"});
		}
	}
	// the cause does not change once it has been reported: a send failure (cause recorded), and while the transport's close()
	// is still running the receive side fails too — every observer, before and after, reports the FIRST cause
	{
		let rt = tokio::runtime::Builder::new_multi_thread().worker_threads(2).enable_all().build().unwrap();
		let out = rt.block_on(async move {
			let (c, peer) = mock::failing_client2(ClientBuilder::default().request_timeout(std::time::Duration::from_secs(3)), 1, false);
			let c = std::sync::Arc::new(c);
			let c1 = c.clone();
			let failing_task = tokio::spawn(async move { c1.request::<u64, _>("m", rpc_params![]).await.map_err(|e| e.to_string()) });
			tokio::time::sleep(std::time::Duration::from_millis(10)).await;
			let early = tokio::time::timeout(std::time::Duration::from_secs(2), c.on_disconnect()).await.map(|e| e.to_string());
			let _ = peer.to_client.send(Err("reset by peer".to_string()));
			tokio::time::sleep(std::time::Duration::from_millis(120)).await;
			let late = tokio::time::timeout(std::time::Duration::from_secs(2), c.on_disconnect()).await.map(|e| e.to_string());
			let failing = tokio::time::timeout(std::time::Duration::from_secs(2), failing_task).await.map(|r| r.ok());
			let later_call = c.request::<u64, _>("later", rpc_params![]).await.map_err(|e| e.to_string());
			vec![format!("failing call: {failing:?}"), format!("on_disconnect at once: {early:?}"), format!("on_disconnect after the receive side failed too: {late:?}"), format!("later call: {later_call:?}")]
		});
		let joined = out.join(" | ");
		if std::env::var("VERIF_PROBE_DEBUG").is_ok() { eprintln!("{joined}"); }
		if joined.contains("could not be found") || joined.contains("reset by peer") || joined.matches("broken pipe").count() < 4 {
			return json!({"probe":"client_send_failure_reports_cause","disagrees":true,
				"input": "a call's send fails with 'broken pipe'; while close() (50 ms) is running the receive side fails with 'reset by peer'; on_disconnect is read before and after, then another call is issued",
				"observed": joined, "expected":"all four report the first cause (broken pipe)"});
		}
	}
	json!({"probe":"client_send_failure_reports_cause","disagrees":false,"histories_tried":12})
}

// ------------------------------------------------------------------------------------------
/// C16: reading params element by element agrees with a plain JSON parse; failures are -32602 and poison the sequence.
pub fn params_sequence_agrees_with_parse() -> Value {
	use jsonrpsee_types::Params;
	let elems = ["1", "-2.5e3", "true", "null", "\"a,b]\"", "\"\\\"q\\\"\"", "[10, 20]", "[[1],[2,[3]]]", "{\"k\":[1,2],\"z\":\"]\"}", "\"\\u00e9\\n\"", "[]", "{}"];
	let seps = [",", " , ", ",\n", "\r\n,\r\n", "\t,\t", " ,\r"];
	let opens = ["[", "[ ", "[\r\n  ", "[\n"];
	let closes = ["]", " ]", "\r\n]", "\n ]"];
	let mut tried = 0u64;
	let fail = |input: &str, obs: String, exp: String| json!({"probe":"params_sequence_agrees_with_parse","disagrees":true,"input":input,"observed":obs,"expected":exp});
	for n in 0..=3usize {
		for start in 0..elems.len() {
			for (si, sep) in seps.iter().enumerate() {
				let (open, close) = (opens[(start + si) % opens.len()], closes[(start + 2 * si) % closes.len()]);
				let chosen: Vec<&str> = (0..n).map(|k| elems[(start + 5 * k) % elems.len()]).collect();
				let text = format!("{open}{}{close}", chosen.join(sep));
				let full: Vec<Value> = match serde_json::from_str(&text) { Ok(v) => v, Err(_) => continue };
				tried += 1;
				let p = Params::new(Some(&text));
				let mut seq = p.sequence();
				for (i, want) in full.iter().enumerate() {
					match seq.next::<Value>() {
						Ok(v) if &v == want => {}
						other => return fail(&text, format!("element {i}: {:?}", other.map_err(|e| e.code())), want.to_string()),
					}
				}
				if let Ok(v) = seq.next::<Value>() {
					return fail(&text, format!("a read past the end yielded {v}"), "exhaustion (error -32602 'No more params')".into());
				}
				match seq.optional_next::<Value>() {
					Ok(None) => {}
					other => return fail(&text, format!("optional read past the end: {:?}", other.map_err(|e| e.code())), "Ok(None)".into()),
				}
				// whole-value parsing agrees
				if p.parse::<Vec<Value>>().ok().as_ref() != Some(&full) {
					return fail(&text, "Params::parse disagrees with serde_json::from_str".into(), format!("{:?}", full));
				}
				// a typed mismatch: -32602, and afterwards only errors or `absent` — never an element from another position
				if n >= 1 {
					let mut seq = p.sequence();
					let first_is_bool = full[0].is_boolean();
					if !first_is_bool {
						match seq.next::<bool>() {
							Err(e) if e.code() == -32602 => {}
							other => return fail(&text, format!("next::<bool>() on a non-bool first element: {:?}", other.map_err(|e| e.code())), "Err(-32602)".into()),
						}
						for _ in 0..4 {
							if let Ok(v) = seq.next::<Value>() {
								return fail(&text, format!("after a failed read a later read yielded {v}"), "only errors or 'absent' after a failed read".into());
							}
							if let Ok(Some(v)) = seq.optional_next::<Value>() {
								return fail(&text, format!("after a failed read a later optional read yielded {v}"), "only errors or 'absent' after a failed read".into());
							}
						}
					}
				}
			}
		}
	}
	// the empty array however it is spelled: the FIRST read, plain or optional, already reports exhaustion / `absent`
	for t in ["[]", "[ ]", "[  ]", "[\n]", "[\t]", "[\r\n]", "[ \r\n\t ]", " [ ] ", "[ ]\n"] {
		if serde_json::from_str::<Vec<Value>>(t).ok() != Some(vec![]) { continue; }
		tried += 1;
		let p = Params::new(Some(t));
		match p.sequence().optional_next::<Value>() {
			Ok(None) => {}
			other => return fail(t, format!("first optional read of an empty array: {:?}", other.map_err(|e| e.code())), "Ok(None)".into()),
		}
		match p.sequence().optional_next::<u64>() {
			Ok(None) => {}
			other => return fail(t, format!("first typed optional read of an empty array: {:?}", other.map_err(|e| e.code())), "Ok(None)".into()),
		}
		match p.sequence().next::<Value>() {
			Err(e) if e.code() == -32602 && e.data().map_or(false, |d| d.get().contains("No more params")) => {}
			other => return fail(t, format!("first read of an empty array: {:?}", other.map_err(|e| (e.code(), e.data().map(|d| d.get().to_string())))), "exhaustion (error -32602 'No more params')".into()),
		}
		if p.parse::<Vec<Value>>().ok() != Some(vec![]) || p.parse::<[u8; 0]>().is_err() {
			return fail(t, "Params::parse disagrees with serde_json::from_str".into(), "[]".into());
		}
	}
	// absent params behave as null / the empty array
	let absent = Params::new(None);
	if absent.sequence().next::<Value>().is_ok() || absent.parse::<Option<u8>>().ok() != Some(None) {
		return fail("absent params", "not treated as null / empty".into(), "null / empty array".into());
	}
	// params that are not an array: reading them as a sequence is a shape mismatch (-32602), never "no more params"
	for t in ["7", "0", "17", "-1", "1.5", "true", "null", "\"x\"", "{}", "{\"a\":1}"] {
		tried += 1;
		let p = Params::new(Some(t));
		let r1 = p.sequence().optional_next::<serde_json::Value>();
		let r2 = p.sequence().next::<serde_json::Value>();
		let bad = |r: &Result<(), i32>| !matches!(r, Err(-32602));
		let m1 = r1.as_ref().map(|_| ()).map_err(|e| e.code());
		let m2 = r2.as_ref().map(|_| ()).map_err(|e| e.code());
		if bad(&m1) || bad(&m2) {
			return fail(&format!("params {t} (not an array) read as a sequence: optional_next, next"), format!("optional_next -> {:?}, next -> {:?}", r1.map_err(|e| e.code()), r2.map_err(|e| e.code())), "both fail with -32602".into());
		}
	}
	// EVERY decoding failure is -32602, whatever category serde_json files it under (surplus elements, numbers out of range,
	// nesting too deep, wrong type, missing element)
	{
		let deep = format!("[{}1{}]", "[".repeat(200), "]".repeat(200));
		let code = |r: Result<(), jsonrpsee_types::ErrorObjectOwned>| r.err().map(|e| e.code());
		let checks: Vec<(String, Option<i32>)> = vec![
			("one::<u64>() on [1, 2]".into(), code(Params::new(Some("[1, 2]")).one::<u64>().map(|_| ()))),
			("parse::<(u64, u64)>() on [1,2,3]".into(), code(Params::new(Some("[1,2,3]")).parse::<(u64, u64)>().map(|_| ()))),
			("parse::<[u64; 2]>() on [1]".into(), code(Params::new(Some("[1]")).parse::<[u64; 2]>().map(|_| ()))),
			("sequence().next::<(u64, u64)>() on [[1,2,3],4]".into(), code(Params::new(Some("[[1,2,3],4]")).sequence().next::<(u64, u64)>().map(|_| ()))),
			("one::<f64>() on [1e999]".into(), code(Params::new(Some("[1e999]")).one::<f64>().map(|_| ()))),
			("sequence().next::<Value>() on [1e999]".into(), code(Params::new(Some("[1e999]")).sequence().next::<Value>().map(|_| ()))),
			("parse::<Value>() on 200 nested arrays".into(), code(Params::new(Some(&deep)).parse::<Value>().map(|_| ()))),
			("sequence().next::<Value>() on 200 nested arrays".into(), code(Params::new(Some(&deep)).sequence().next::<Value>().map(|_| ()))),
			("one::<u8>() on [256]".into(), code(Params::new(Some("[256]")).one::<u8>().map(|_| ()))),
			("one::<String>() on [1]".into(), code(Params::new(Some("[1]")).one::<String>().map(|_| ()))),
			("parse::<(u64,)>() on {\"a\":1}".into(), code(Params::new(Some("{\"a\":1}")).parse::<(u64,)>().map(|_| ()))),
		];
		for (what, got) in checks {
			tried += 1;
			if got != Some(-32602) {
				return fail(&what, format!("{got:?}"), "Some(-32602): invalid params".into());
			}
		}
	}
	json!({"probe":"params_sequence_agrees_with_parse","disagrees":false,"inputs_tried":tried,"bound":"arrays of 0..3 elements from 12 element texts x 6 separators x 4 open/close spellings (incl. CRLF); 10 non-array params texts; 11 decoding failures of different serde_json categories"})
}

// ------------------------------------------------------------------------------------------
/// C14: the host filter in front of a counting stub service.
pub fn host_filter_gate() -> Value {
	use jsonrpsee_server::middleware::http::HostFilterLayer;
	use std::sync::atomic::{AtomicUsize, Ordering};
	use tower::{Layer, Service};
	rt().block_on(async {
		// (allow-list, Host header, URI, expected status: 200 = passed on)
		let cases: Vec<(Vec<&str>, Vec<&str>, &str, u16)> = vec![
			(vec!["parity.io:443"], vec!["parity.io:443"], "/", 200),
			(vec!["parity.io:443"], vec!["parity.io:444"], "/", 403),
			(vec!["parity.io:443"], vec!["parity.io"], "/", 403),
			(vec!["parity.io:443"], vec!["parity.io:*"], "/", 403),
			(vec!["parity.io"], vec!["parity.io:*"], "/", 403),
			(vec!["parity.io:*"], vec!["parity.io:1234"], "/", 200),
			(vec!["parity.io:*"], vec!["parity.io"], "/", 200),
			(vec!["parity.io"], vec!["parity.io"], "/", 200),
			(vec!["parity.io"], vec!["PARITY.IO"], "/", 403),
			(vec!["MyNode.local:9944"], vec!["MyNode.local:9944"], "/", 200),
			(vec!["MyNode.local:9944"], vec!["mynode.local:9944"], "/", 403),
			(vec!["*.parity.io"], vec!["a.parity.io"], "/", 200),
			(vec!["*.parity.io"], vec!["parity.io"], "/", 403),
			(vec!["*.parity.io"], vec!["evil.io"], "/", 403),
			(vec!["parity.io", "localhost:9933"], vec!["localhost:9933"], "/", 200),
			(vec!["parity.io", "localhost:9933"], vec!["localhost:9934"], "/", 403),
			(vec!["parity.io:80", "parity.io:81"], vec!["parity.io:81"], "/", 200),
			(vec!["parity.io:80", "parity.io:81"], vec!["parity.io:82"], "/", 403),
			(vec!["parity.io:80", "parity.io:81"], vec!["parity.io:80"], "/", 200),
			(vec!["parity.io:1", "other.io:9", "parity.io:2", "parity.io:3"], vec!["parity.io:1"], "/", 200),
			(vec!["parity.io:1", "other.io:9", "parity.io:2", "parity.io:3"], vec!["parity.io:2"], "/", 200),
			(vec!["parity.io:1", "other.io:9", "parity.io:2", "parity.io:3"], vec!["parity.io:3"], "/", 200),
			(vec!["parity.io:1", "other.io:9", "parity.io:2", "parity.io:3"], vec!["parity.io:9"], "/", 403),
			(vec!["parity.io:1", "other.io:9", "parity.io:2", "parity.io:3"], vec!["other.io:9"], "/", 200),
			(vec!["parity.io:1", "parity.io"], vec!["parity.io"], "/", 200),
			(vec!["parity.io:1", "parity.io"], vec!["parity.io:1"], "/", 200),
			(vec!["parity.io"], vec![], "/", 400),
			(vec!["parity.io"], vec!["parity.io"], "http://other.io/", 400),
			(vec!["parity.io"], vec!["parity.io"], "http://parity.io/", 200),
			(vec!["parity.io"], vec!["parity.io:99999"], "/", 400),
			(vec![], vec!["parity.io"], "/", 403),
			(vec![], vec![], "http://parity.io/", 403),
			// the authority comes from the request URI only (HTTP/2 :authority, absolute-form target)
			(vec!["parity.io"], vec![], "http://parity.io/", 200),
			(vec!["parity.io:443"], vec![], "http://parity.io:443/", 200),
			(vec!["parity.io:443"], vec![], "http://parity.io:444/", 403),
			(vec!["parity.io"], vec![], "http://parity.io:99999/", 400),
			(vec!["parity.io:*"], vec![], "http://parity.io:99999/", 400),
			(vec!["parity.io"], vec!["parity.io:99999"], "http://parity.io:99999/", 400),
			// one place names an authority that cannot be used: it is never ignored in favour of the other place
			(vec!["parity.io"], vec!["not a host"], "http://parity.io/", 400),
			(vec!["parity.io"], vec!["parity.io"], "http://evil.io:99999/", 400),
			(vec!["parity.io"], vec!["parity.io"], "http://evil.io:/", 400),
			(vec!["parity.io"], vec!["evil.io:99999"], "http://parity.io/", 400),
			(vec!["parity.io"], vec!["evil.io/"], "http://parity.io/", 400),
			(vec!["parity.io"], vec!["evil.io", "evil.io"], "http://parity.io/", 400),
			(vec!["parity.io"], vec!["parity.io", "parity.io"], "http://parity.io/", 400),
					// several Host headers: no single authority can be determined
			(vec!["parity.io"], vec!["parity.io", "evil.io"], "/", 400),
			(vec!["parity.io"], vec!["evil.io", "parity.io"], "/", 400),
			(vec!["parity.io"], vec!["parity.io", "parity.io"], "/", 400),
			// an explicit port 80 is not "the default port" of a scheme-less authority
			(vec!["parity.io"], vec!["parity.io:80"], "/", 403),
			(vec!["https://parity.io"], vec!["parity.io:80"], "/", 403),
			(vec!["http://parity.io"], vec!["parity.io"], "/", 200),
			(vec!["https://parity.io:443"], vec!["parity.io"], "/", 200),
];
		let mut tried = 0;
		for (allow, host, uri, want) in cases {
			tried += 1;
			let calls = std::sync::Arc::new(AtomicUsize::new(0));
			let calls2 = calls.clone();
			let stub = tower::service_fn(move |_req: http::Request<jsonrpsee_server::HttpBody>| {
				calls2.fetch_add(1, Ordering::SeqCst);
				async { Ok::<_, jsonrpsee_core::BoxError>(http::Response::new(jsonrpsee_server::HttpBody::default())) }
			});
			let layer = match HostFilterLayer::new(allow.clone()) { Ok(l) => l, Err(e) => return json!({"probe":"host_filter_gate","error":format!("allow-list {:?} rejected: {e}", allow)}) };
			let mut svc = layer.layer(stub);
			let mut b = http::Request::builder().method("POST").uri(uri);
			for h in &host {
				b = b.header("host", *h);
			}
			let req = b.body(jsonrpsee_server::HttpBody::default()).unwrap();
			let status = match svc.call(req).await { Ok(rp) => rp.status().as_u16(), Err(_) => 0 };
			let ran = calls.load(Ordering::SeqCst);
			if status != want || (want != 200 && ran != 0) || (want == 200 && ran != 1) {
				return json!({"probe":"host_filter_gate","disagrees":true,"input":format!("allow-list {:?}, Host header {:?}, request URI {:?}", allow, host, uri),
					"observed": format!("status {status}, inner service called {ran} time(s)"), "expected": format!("status {want}{}", if want == 200 {", inner service called once"} else {", inner service not called"})});
			}
		}
		// allow-list entries given as socket addresses (what a server typically passes for its own listen address)
		for (addr, host, want) in [("127.0.0.1:9944", "127.0.0.1:9944", 200u16), ("127.0.0.1:9944", "127.0.0.1:9945", 403), ("[::1]:9944", "[::1]:9944", 200), ("[::1]:9944", "[::1]:9945", 403), ("[2001:db8::1]:80", "[2001:db8::1]:80", 200)] {
			tried += 1;
			let sa: std::net::SocketAddr = addr.parse().unwrap();
			let calls = std::sync::Arc::new(AtomicUsize::new(0));
			let calls2 = calls.clone();
			let stub = tower::service_fn(move |_req: http::Request<jsonrpsee_server::HttpBody>| {
				calls2.fetch_add(1, Ordering::SeqCst);
				async { Ok::<_, jsonrpsee_core::BoxError>(http::Response::new(jsonrpsee_server::HttpBody::default())) }
			});
			let layer = match HostFilterLayer::new([sa]) { Ok(l) => l, Err(e) => return json!({"probe":"host_filter_gate","disagrees":true,"input":format!("allow-list [SocketAddr {addr}]"),"observed":format!("rejected: {e}"),"expected":"accepted"}) };
			let mut svc = layer.layer(stub);
			let req = http::Request::builder().method("POST").uri("/").header("host", host).body(jsonrpsee_server::HttpBody::default()).unwrap();
			let status = match svc.call(req).await { Ok(rp) => rp.status().as_u16(), Err(_) => 0 };
			let ran = calls.load(Ordering::SeqCst);
			if status != want || (want == 200) != (ran == 1) {
				return json!({"probe":"host_filter_gate","disagrees":true,"input":format!("allow-list [SocketAddr {addr}], Host header {host:?}"),
					"observed": format!("status {status}, inner service called {ran} time(s)"), "expected": format!("status {want}")});
			}
		}
		json!({"probe":"host_filter_gate","disagrees":false,"inputs_tried":tried})
	})
}

// ------------------------------------------------------------------------------------------
/// C06 / C04: subscription bookkeeping through the real RpcModule (no transport): clones of a sink, unsubscribe answers,
/// sends after close.
pub fn subscription_bookkeeping() -> Value {
	use jsonrpsee_core::server::{SubscriptionMessage, SubscriptionSink};
	use jsonrpsee_types::SubscriptionId;
	rt().block_on(async {
		fn raw(s: &str) -> SubscriptionMessage { SubscriptionMessage::from(serde_json::value::RawValue::from_string(s.to_string()).unwrap()) }
		let fail = |input: &str, obs: String, exp: &str| json!({"probe":"subscription_bookkeeping","disagrees":true,"input":input,"observed":obs,"expected":exp});
		let (report_tx, mut report_rx) = tokio::sync::mpsc::unbounded_channel::<String>();
		let mut module = RpcModule::new(report_tx);
		module
			.register_subscription("sub", "notif", "unsub", |_, pending, tx, _| async move {
				let sink: SubscriptionSink = pending.accept().await.unwrap();
				// the handler clones its sink and drops ONE clone: it still holds a sink
				let clone = sink.clone();
				drop(clone);
				tokio::time::sleep(std::time::Duration::from_millis(30)).await;
				let closed_after_clone_drop = sink.is_closed();
				let r = sink.send(raw("\"after-clone-drop\"")).await;
				let _ = tx.send(format!("closed_after_clone_drop={closed_after_clone_drop} send_ok={}", r.is_ok()));
				// wait for the unsubscribe, then try every send flavour
				sink.closed().await;
				let mut sink = sink;
				let s1 = sink.send(raw("1")).await.is_ok();
				let s2 = sink.send_timeout(raw("2"), std::time::Duration::from_millis(50)).await.is_ok();
				let s3 = sink.try_send(raw("3")).is_ok();
				let _ = tx.send(format!("after_close is_closed={} send={s1} send_timeout={s2} try_send={s3}", sink.is_closed()));
			})
			.unwrap();
		let mut sub = module.subscribe_unbounded("sub", jsonrpsee_core::EmptyServerParams::new()).await.unwrap();
		let sub_id = sub.subscription_id().clone();
		let first = tokio::time::timeout(std::time::Duration::from_secs(2), report_rx.recv()).await.ok().flatten().unwrap_or_default();
		if first != "closed_after_clone_drop=false send_ok=true" {
			return fail("handler accepts, clones its sink, drops the clone, then sends with the sink it still holds", first, "the subscription is still active: is_closed() == false and the send succeeds");
		}
		let got = tokio::time::timeout(std::time::Duration::from_secs(2), sub.next::<String>()).await;
		if !matches!(&got, Ok(Some(Ok((v, _)))) if v == "after-clone-drop") {
			return fail("notification sent after a clone of the sink was dropped", format!("{:?}", got.map(|o| o.map(|r| r.map(|x| x.0).map_err(|e| e.to_string())))), "delivered");
		}
		// unsubscribe: another id -> false; own id -> true; again -> false
		let other: bool = module.call("unsub", [SubscriptionId::Num(999_999)]).await.unwrap();
		let own: bool = module.call("unsub", [sub_id.clone()]).await.unwrap();
		let again: bool = module.call("unsub", [sub_id.clone()]).await.unwrap();
		if (other, own, again) != (false, true, false) {
			return fail("unsubscribe(unknown id), unsubscribe(own id), unsubscribe(own id) again", format!("{:?}", (other, own, again)), "(false, true, false)");
		}
		let second = tokio::time::timeout(std::time::Duration::from_secs(2), report_rx.recv()).await.ok().flatten().unwrap_or_default();
		if second != "after_close is_closed=true send=false send_timeout=false try_send=false" {
			return fail("after a successful unsubscribe the handler tries send, send_timeout and try_send", second, "the sink reports closed and every send started after that fails");
		}
		// nothing more is delivered
		let extra = tokio::time::timeout(std::time::Duration::from_millis(200), sub.next::<String>()).await;
		if let Ok(Some(Ok((v, _)))) = &extra {
			return fail("notifications after a successful unsubscribe", format!("delivered {v}"), "nothing delivered after close");
		}
		// history 2: the caller goes away between the subscribe call and the handler's accept(): the subscription never
		// becomes active, so an unsubscribe naming its id answers false
		{
			let (tx2, mut rx2) = tokio::sync::mpsc::unbounded_channel::<String>();
			let gate = std::sync::Arc::new(tokio::sync::Notify::new());
			let gate2 = gate.clone();
			let mut module2 = RpcModule::new((tx2, gate2));
			module2
				.register_subscription("sub2", "notif2", "unsub2", |_, pending, ctx, _| async move {
					let sid = serde_json::to_string(&pending.subscription_id()).unwrap();
					ctx.1.notified().await;
					let accepted = pending.accept().await.is_ok();
					let _ = ctx.0.send(format!("{sid}|{accepted}"));
				})
				.unwrap();
			{
				let fut = module2.subscribe_unbounded("sub2", jsonrpsee_core::EmptyServerParams::new());
				tokio::select! { _ = fut => {}, _ = tokio::time::sleep(std::time::Duration::from_millis(60)) => {} }
			}
			gate.notify_one();
			let rep = tokio::time::timeout(std::time::Duration::from_secs(2), rx2.recv()).await.ok().flatten().unwrap_or_default();
			let (sid, accepted) = rep.split_once('|').unwrap_or(("", ""));
			if accepted == "false" {
				let sid: SubscriptionId = serde_json::from_str(sid).unwrap();
				let answer: bool = module2.call("unsub2", [sid.into_owned()]).await.unwrap();
				if answer {
					return fail("subscribe call dropped before the handler's accept(); accept() fails; then unsubscribe(that id)", "true".into(), "false (the subscription never became active)");
				}
			}
		}
		// history 3: the handler hands its sink to another task and returns; the subscription stays active while that sink
		// is held: not closed, sends are delivered, unsubscribe(own id) answers true — and only then it is closed
		{
			let (tx3, mut rx3) = tokio::sync::mpsc::unbounded_channel::<String>();
			let mut module3 = RpcModule::new(tx3);
			module3
				.register_subscription("sub3", "notif3", "unsub3", |_, pending, tx, _| async move {
					let sink: SubscriptionSink = pending.accept().await.unwrap();
					tokio::spawn(async move {
						tokio::time::sleep(std::time::Duration::from_millis(80)).await;
						let closed = sink.is_closed();
						let sent = sink.send(raw("\"from-moved-sink\"")).await.is_ok();
						let _ = tx.send(format!("closed={closed} sent={sent}"));
						sink.closed().await;
						let _ = tx.send(format!("finally closed={}", sink.is_closed()));
					});
				})
				.unwrap();
			let mut sub3 = module3.subscribe_unbounded("sub3", jsonrpsee_core::EmptyServerParams::new()).await.unwrap();
			let sid3 = sub3.subscription_id().clone();
			let rep = tokio::time::timeout(std::time::Duration::from_secs(2), rx3.recv()).await.ok().flatten().unwrap_or_default();
			if rep != "closed=false sent=true" {
				return fail("handler accepts, moves its sink into another task and returns; that task then uses the sink", rep, "the subscription is still active: is_closed() == false and the send succeeds");
			}
			let got = tokio::time::timeout(std::time::Duration::from_secs(2), sub3.next::<String>()).await;
			if !matches!(&got, Ok(Some(Ok((v, _)))) if v == "from-moved-sink") {
				return fail("notification sent through a sink that outlives the handler", format!("{:?}", got.map(|o| o.map(|r| r.map(|x| x.0).map_err(|e| e.to_string())))), "delivered");
			}
			let own: bool = module3.call("unsub3", [sid3.clone()]).await.unwrap();
			if !own {
				return fail("unsubscribe(own id) while a sink of the subscription is still held (handler already returned)", "false".into(), "true");
			}
			let rep2 = tokio::time::timeout(std::time::Duration::from_secs(2), rx3.recv()).await.ok().flatten().unwrap_or_default();
			if rep2 != "finally closed=true" {
				return fail("after that unsubscribe the held sink", rep2, "reports closed");
			}
		}
		// history 4: a rejected (or never accepted) subscription whose handler returns a closing value AT ONCE: nothing but
		// the error response to the subscribe call may be sent
		{
			use jsonrpsee_core::server::SubscriptionCloseResponse;
			use jsonrpsee_types::ErrorObject;
			let mut module4 = RpcModule::new(());
			module4
				.register_subscription("rej_notif", "n1", "u1", |_, pending, _, _| async move {
					pending.reject(ErrorObject::owned(-32000, "rejected", None::<()>)).await;
					SubscriptionCloseResponse::Notif(raw("\"do not send\""))
				})
				.unwrap();
			module4
				.register_subscription("rej_err", "n2", "u2", |_, pending, _, _| async move {
					pending.reject(ErrorObject::owned(-32000, "rejected", None::<()>)).await;
					SubscriptionCloseResponse::NotifErr(jsonrpsee_core::SubscriptionError::from("do not send"))
				})
				.unwrap();
			for m in ["rej_notif", "rej_err"] {
				let req = format!(r#"{{"jsonrpc":"2.0","id":1,"method":"{m}"}}"#);
				let (rp, mut stream) = match module4.raw_json_request(&req, 4).await { Ok(x) => x, Err(e) => return fail(&req, format!("raw_json_request failed: {e}"), "an error response") };
				let rp_v: Value = serde_json::from_str(rp.get()).unwrap_or(Value::Null);
				if rp_v.get("error").is_none() {
					return fail(&format!("subscribe call to {m:?} whose handler rejects / drops the pending subscription"), rp.get().to_string(), "an error response");
				}
				let extra = tokio::time::timeout(std::time::Duration::from_millis(150), stream.recv()).await;
				if let Ok(Some(x)) = extra {
					return fail(&format!("subscription {m:?} is rejected (or never accepted) and its handler returns a closing value at once"), format!("sent afterwards: {}", x.get()), "nothing (the closing value of a never-accepted subscription is discarded)");
				}
			}
		}
		// history 5: the connection ends while the handler is busy elsewhere; when the handler THEN asks, its sink reports
		// closed — is_closed() is true, closed().await completes at once, sends fail
		{
			let (tx5, mut rx5) = tokio::sync::mpsc::unbounded_channel::<String>();
			let gate5 = std::sync::Arc::new(tokio::sync::Notify::new());
			let mut module5 = RpcModule::new((tx5, gate5.clone()));
			module5
				.register_subscription("sub5", "notif5", "unsub5", |_, pending, ctx, _| async move {
					let sink: SubscriptionSink = pending.accept().await.unwrap();
					ctx.1.notified().await;     // busy elsewhere until the connection is gone
					let is_closed = sink.is_closed();
					let closed_done = tokio::time::timeout(std::time::Duration::from_millis(500), sink.closed()).await.is_ok();
					let sent = sink.send(raw("\"late\"")).await.is_ok();
					let _ = ctx.0.send(format!("is_closed={is_closed} closed_completed={closed_done} sent={sent}"));
				})
				.unwrap();
			let sub5 = module5.subscribe_unbounded("sub5", jsonrpsee_core::EmptyServerParams::new()).await.unwrap();
			drop(sub5);      // the connection (its receiving end) goes away
			tokio::time::sleep(std::time::Duration::from_millis(30)).await;
			gate5.notify_one();
			let rep = tokio::time::timeout(std::time::Duration::from_secs(3), rx5.recv()).await.ok().flatten().unwrap_or_default();
			if rep != "is_closed=true closed_completed=true sent=false" {
				return fail("subscription accepted; the connection ends while the handler is busy; afterwards the handler calls is_closed(), closed().await and send()", rep, "is_closed=true closed_completed=true sent=false");
			}
		}
		// H6: the connection's outgoing buffer is full; the handler gives up on accept() after a timeout (the accept future is dropped
		// at its await) and returns: the subscribe call fails, the slot is free again, and the id names NO subscription
		{
			use jsonrpsee_core::server::{BoundedSubscriptions, ConnectionId, MethodCallback, MethodSink, Methods, SubscriptionState};
			use jsonrpsee_types::{Params, SubscriptionId};
			#[derive(Debug)]
			struct Seven;
			impl jsonrpsee_core::traits::IdProvider for Seven { fn next_id(&self) -> SubscriptionId<'static> { SubscriptionId::Num(7) } }
			let done = std::sync::Arc::new(tokio::sync::Notify::new());
			let mut module6 = RpcModule::new(done.clone());
			module6
				.register_subscription("sub6", "notif6", "unsub6", |_, pending, ctx, _| async move {
					if let Ok(Ok(sink)) = tokio::time::timeout(std::time::Duration::from_millis(100), pending.accept()).await {
						sink.closed().await;
					}
					ctx.notify_one();
				})
				.unwrap();
			let methods: Methods = module6.into();
			let (tx, mut rx) = tokio::sync::mpsc::channel(1);
			let sink = MethodSink::new(tx);
			let _ = sink.send(serde_json::value::to_raw_value(&"filler").unwrap()).await;
			let cap = BoundedSubscriptions::new(1);
			let permit = cap.acquire().unwrap();
			let (sub_cb, unsub_cb) = match (methods.method_with_name("sub6"), methods.method_with_name("unsub6")) {
				(Some((_, MethodCallback::Subscription(a))), Some((_, MethodCallback::Unsubscription(b)))) => (a.clone(), b.clone()),
				_ => return fail("H6 setup", "callbacks not found".into(), "subscription + unsubscription callbacks"),
			};
			let ids = Seven;
			let state = SubscriptionState { conn_id: ConnectionId(3), id_provider: &ids, subscription_permit: permit };
			let rp = (sub_cb)(Id::Number(1), Params::new(None), sink.clone(), state, http::Extensions::new()).await;
			let _ = tokio::time::timeout(std::time::Duration::from_secs(2), done.notified()).await;
			let slot_back = cap.acquire().is_some();
			let first = rx.recv().await.map(|m| m.get().to_string());
			let nothing_else = rx.try_recv().is_err();
			let un = (unsub_cb)(Id::Number(2), Params::new(Some("[7]")), ConnectionId(3), usize::MAX, http::Extensions::new());
			let unv: Value = serde_json::from_str(un.as_json().get()).unwrap_or(Value::Null);
			let obs = format!("subscribe answered with error={} slot_returned={slot_back} buffered={first:?} nothing_else_sent={nothing_else} unsubscribe -> {}", rp.is_error(), unv["result"]);
			if !(rp.is_error() && slot_back && nothing_else && unv["result"] == json!(false)) {
				return fail("the connection's buffer (1 message) is full; the handler abandons accept() after 100 ms and returns; then unsubscribe names the id", obs,
					"subscribe call failed, slot returned, nothing sent, unsubscribe -> false");
			}
		}
		json!({"probe":"subscription_bookkeeping","disagrees":false,"histories_tried":6})
	})
}

// ------------------------------------------------------------------------------------------
/// C19: only POST reaches the RPC layer over HTTP — every other method token (incl. case variants of POST) is refused with
/// 405 and no handler runs. Real server, raw HTTP/1.1 requests over TCP.
pub fn http_method_gate() -> Value {
	use std::sync::atomic::{AtomicUsize, Ordering};
	use tokio::io::{AsyncReadExt, AsyncWriteExt};
	rt().block_on(async {
		let calls = std::sync::Arc::new(AtomicUsize::new(0));
		let server = jsonrpsee_server::Server::builder().build("127.0.0.1:0").await.unwrap();
		let addr = server.local_addr().unwrap();
		let mut module = RpcModule::new(calls.clone());
		module.register_method("hit", |_, ctx, _| { ctx.fetch_add(1, Ordering::SeqCst); 1u64 }).unwrap();
		let _handle = server.start(module);
		let body = r#"{"jsonrpc":"2.0","id":1,"method":"hit"}"#;
		let methods = [("POST", true), ("GET", false), ("PUT", false), ("DELETE", false), ("PATCH", false), ("OPTIONS", false), ("HEAD", false),
			("post", false), ("Post", false), ("pOST", false), ("POSTS", false), ("XPOST", false), ("POS", false)];
		let mut tried = 0;
		for (m, allowed) in methods {
			tried += 1;
			let before = calls.load(Ordering::SeqCst);
			let mut sock = match tokio::net::TcpStream::connect(addr).await { Ok(s) => s, Err(e) => return json!({"probe":"http_method_gate","error":format!("connect: {e}")}) };
			let req = format!("{m} / HTTP/1.1\r\nHost: {addr}\r\nContent-Type: application/json\r\nContent-Length: {}\r\nConnection: close\r\n\r\n{body}", body.len());
			let _ = sock.write_all(req.as_bytes()).await;
			let mut buf = Vec::new();
			let _ = tokio::time::timeout(std::time::Duration::from_secs(3), sock.read_to_end(&mut buf)).await;
			let txt = String::from_utf8_lossy(&buf).to_string();
			let status: u16 = txt.split_whitespace().nth(1).and_then(|s| s.parse().ok()).unwrap_or(0);
			let ran = calls.load(Ordering::SeqCst) - before;
			let ok = if allowed { status == 200 && ran == 1 } else { status != 200 && ran == 0 && (status == 405 || status == 400 || status == 0) };
			if !ok {
				return json!({"probe":"http_method_gate","disagrees":true,"input":format!("HTTP method token {m:?} with a JSON content type and a valid call as body"),
					"observed":format!("status {status}, handler ran {ran} time(s)"),"expected": if allowed {"200 and the handler runs once"} else {"refused (405), no handler runs"}});
			}
		}
		// content-type lines as hyper hands them over: missing, single, and several lines with a non-JSON one first
		let cts: [(&[&str], bool); 6] = [(&["application/json"], true), (&["application/json; charset=utf-8"], true), (&[], false), (&["text/plain"], false),
			(&["text/plain", "application/json"], false), (&["application/xml", "text/plain", "application/json-rpc"], false)];
		for (lines, allowed) in cts {
			tried += 1;
			let before = calls.load(Ordering::SeqCst);
			let mut sock = match tokio::net::TcpStream::connect(addr).await { Ok(s) => s, Err(e) => return json!({"probe":"http_method_gate","error":format!("connect: {e}")}) };
			let ct: String = lines.iter().map(|l| format!("Content-Type: {l}\r\n")).collect();
			let req = format!("POST / HTTP/1.1\r\nHost: {addr}\r\n{ct}Content-Length: {}\r\nConnection: close\r\n\r\n{body}", body.len());
			let _ = sock.write_all(req.as_bytes()).await;
			let mut buf = Vec::new();
			let _ = tokio::time::timeout(std::time::Duration::from_secs(3), sock.read_to_end(&mut buf)).await;
			let txt = String::from_utf8_lossy(&buf).to_string();
			let status: u16 = txt.split_whitespace().nth(1).and_then(|s| s.parse().ok()).unwrap_or(0);
			let ran = calls.load(Ordering::SeqCst) - before;
			let ok = if allowed { status == 200 && ran == 1 } else { status == 415 && ran == 0 };
			if !ok {
				return json!({"probe":"http_method_gate","disagrees":true,"input":format!("POST with Content-Type header lines {lines:?} and a valid call as body"),
					"observed":format!("status {status}, handler ran {ran} time(s)"),"expected": if allowed {"200 and the handler runs once"} else {"415, no handler runs"}});
			}
		}
		// a server with the optional GET-proxy layer: only GET (proxied) and POST (plain RPC) on the proxied path run a handler
		{
			use jsonrpsee_server::middleware::http::ProxyGetRequestLayer;
			let calls2 = std::sync::Arc::new(AtomicUsize::new(0));
			let layer = match ProxyGetRequestLayer::new([("/health", "hit")]) { Ok(l) => l, Err(e) => return json!({"probe":"http_method_gate","error":e.to_string()}) };
			let server2 = jsonrpsee_server::Server::builder().set_http_middleware(tower::ServiceBuilder::new().layer(layer)).build("127.0.0.1:0").await.unwrap();
			let addr2 = server2.local_addr().unwrap();
			let mut module2 = RpcModule::new(calls2.clone());
			module2.register_method("hit", |_, ctx, _| { ctx.fetch_add(1, Ordering::SeqCst); 1u64 }).unwrap();
			let _handle2 = server2.start(module2);
			for (m, with_body, allowed) in [("GET", false, true), ("POST", true, true), ("PUT", false, false), ("DELETE", false, false), ("PATCH", false, false), ("HEAD", false, false), ("OPTIONS", false, false), ("PUT", true, false)] {
				tried += 1;
				let before = calls2.load(Ordering::SeqCst);
				let mut sock = match tokio::net::TcpStream::connect(addr2).await { Ok(s) => s, Err(e) => return json!({"probe":"http_method_gate","error":format!("connect: {e}")}) };
				let req = if with_body { format!("{m} /health HTTP/1.1\r\nHost: {addr2}\r\nContent-Type: application/json\r\nContent-Length: {}\r\nConnection: close\r\n\r\n{body}", body.len()) }
					else { format!("{m} /health HTTP/1.1\r\nHost: {addr2}\r\nConnection: close\r\n\r\n") };
				let _ = sock.write_all(req.as_bytes()).await;
				let mut buf = Vec::new();
				let _ = tokio::time::timeout(std::time::Duration::from_secs(3), sock.read_to_end(&mut buf)).await;
				let txt = String::from_utf8_lossy(&buf).to_string();
				let status: u16 = txt.split_whitespace().nth(1).and_then(|s| s.parse().ok()).unwrap_or(0);
				let ran = calls2.load(Ordering::SeqCst) - before;
				let ok = if allowed { status == 200 && ran == 1 } else { status != 200 && ran == 0 };
				if !ok {
					return json!({"probe":"http_method_gate","disagrees":true,"input":format!("server with the GET-proxy layer (/health -> hit): {m} /health{}", if with_body {" with a JSON call as body"} else {""}),
						"observed":format!("status {status}, handler ran {ran} time(s)"),"expected": if allowed {"200 and the handler runs once"} else {"refused, no handler runs"}});
				}
			}
		}
		json!({"probe":"http_method_gate","disagrees":false,"inputs_tried":tried,"bound":"13 method tokens x one valid JSON call; 6 Content-Type header line sets; 8 method/body combinations on a proxied path"})
	})
}

// ------------------------------------------------------------------------------------------
/// C15: the response parser accepts an object exactly when it has one id, exactly one of result/error and a jsonrpc member
/// that is absent, null or "2.0" (in any JSON spelling); duplicates of known members are rejected, unknown members ignored;
/// an accepted text round-trips (serialise -> parse -> serialise is stable, and carries jsonrpc "2.0").
pub fn response_member_forms() -> Value {
	use jsonrpsee_types::Response;
	let toks: [(&str, &str); 9] = [
		("J2", r#""jsonrpc":"2.0""#), ("JN", r#""jsonrpc":null"#), ("JE", r#""jsonrpc":"2\u002e0""#), ("JB", r#""jsonrpc":"1.0""#),
		("I1", r#""id":1"#), ("IS", r#""id":"a\"b""#), ("R", r#""result":[7,{"k":"v"}]"#), ("E", r#""error":{"code":-32000,"message":"m"}"#), ("X", r#""x":{"id":3}"#),
	];
	let mut tried = 0u64;
	let n = toks.len();
	for len in 1..=4usize {
		let mut idx = vec![0usize; len];
		loop {
			tried += 1;
			let names: Vec<&str> = idx.iter().map(|&i| toks[i].0).collect();
			let text = format!("{{{}}}", idx.iter().map(|&i| toks[i].1).collect::<Vec<_>>().join(","));
			let cnt = |p: &str| names.iter().filter(|x| x.starts_with(p)).count();
			let want = cnt("I") == 1 && cnt("R") + cnt("E") == 1 && cnt("J") <= 1 && cnt("JB") == 0;
			let got = serde_json::from_str::<Response<Value>>(&text);
			if got.is_ok() != want {
				return json!({"probe":"response_member_forms","disagrees":true,"input":text,"observed": if got.is_ok() {"accepted".to_string()} else {format!("rejected: {}", got.err().unwrap())},
					"expected": if want {"accepted (one id, exactly one of result/error, jsonrpc absent/null/\"2.0\")"} else {"rejected"}});
			}
			if let Ok(r) = got {
				let s1 = serde_json::to_string(&r).unwrap_or_default();
				// the owned form (what every client path converts a parsed response to) serialises to the same bytes
				let s_owned = serde_json::from_str::<Response<Value>>(&text).ok().map(|x| serde_json::to_string(&x.into_owned()).unwrap_or_default()).unwrap_or_default();
				if s_owned != s1 {
					return json!({"probe":"response_member_forms","disagrees":true,"input":format!("{text} parsed, then into_owned()"),"observed":s_owned,"expected":s1});
				}
				let r2 = serde_json::from_str::<Response<Value>>(&s1);
				let s2 = r2.as_ref().ok().and_then(|x| serde_json::to_string(x).ok()).unwrap_or_default();
				let v1: Value = serde_json::from_str(&s1).unwrap_or(Value::Null);
				let mut want_v = serde_json::Map::new();
				// (a parsed response keeps whether the version member was given: absent / null stay absent when re-serialised)
				if cnt("J2") + cnt("JE") == 1 { want_v.insert("jsonrpc".into(), json!("2.0")); }
				for &i in &idx {
					let (nm, t) = toks[i];
					if nm.starts_with('I') || nm == "R" || nm == "E" {
						let kv: Value = serde_json::from_str(&format!("{{{t}}}")).unwrap();
						for (k, v) in kv.as_object().unwrap() { want_v.insert(k.clone(), v.clone()); }
					}
				}
				if s1 != s2 || v1 != Value::Object(want_v.clone()) {
					return json!({"probe":"response_member_forms","disagrees":true,"input":text,"observed":format!("serialised {s1}; re-parsed and serialised {s2}"),"expected":Value::Object(want_v).to_string()});
				}
				// a deserializer that cannot lend out borrowed strings (serde_json::Value) must agree when the text has no duplicate keys
				let distinct = { let mut k: Vec<&str> = names.iter().map(|x| &x[..1]).collect(); k.sort(); k.dedup(); k.len() == names.len() };
				if distinct {
					let as_value: Value = serde_json::from_str::<Value>(&text).unwrap_or(Value::Null);
					let via_value = <Response<Value> as serde::Deserialize>::deserialize(&as_value).is_ok();
					if !via_value {
						return json!({"probe":"response_member_forms","disagrees":true,"input":format!("{text} (parsed to a serde_json::Value first, then from_value)"),"observed":"rejected","expected":"accepted, as from the text"});
					}
				}
			}
			// next index vector
			let mut k = len;
			loop {
				if k == 0 { break; }
				k -= 1;
				idx[k] += 1;
				if idx[k] < n { break; }
				idx[k] = 0;
				if k == 0 { k = usize::MAX; break; }
			}
			if k == usize::MAX { break; }
		}
	}
	// requests and notifications: serialise -> parse -> equal, for awkward ids / methods / params
	{
		use jsonrpsee_types::{Request, Notification};
		let ids = [json!(null), json!(0), json!(18446744073709551615u64), json!("a\"\\\n\u{1}\u{e9}")];
		for idv in ids {
			tried += 1;
			let text = json!({"jsonrpc":"2.0","id":idv,"method":"m\"x","params":[1,"\u{7f}",{"a":null}]}).to_string();
			let req = match serde_json::from_str::<Request>(&text) { Ok(r) => r, Err(e) => return json!({"probe":"response_member_forms","disagrees":true,"input":text,"observed":format!("request rejected: {e}"),"expected":"accepted"}) };
			let s1 = serde_json::to_string(&req).unwrap_or_default();
			if serde_json::from_str::<Value>(&s1).ok() != serde_json::from_str::<Value>(&text).ok() {
				return json!({"probe":"response_member_forms","disagrees":true,"input":text,"observed":s1,"expected":"the same request after parse + serialise"});
			}
		}
		let ntext = json!({"jsonrpc":"2.0","method":"n","params":{"k":[1,2]}}).to_string();
		tried += 1;
		match serde_json::from_str::<Notification<Value>>(&ntext) {
			Ok(nf) => { if serde_json::from_str::<Value>(&serde_json::to_string(&nf).unwrap_or_default()).ok() != serde_json::from_str::<Value>(&ntext).ok() { return json!({"probe":"response_member_forms","disagrees":true,"input":ntext,"observed":"changed by parse + serialise","expected":"unchanged"}); } }
			Err(e) => return json!({"probe":"response_member_forms","disagrees":true,"input":ntext,"observed":format!("notification rejected: {e}"),"expected":"accepted"}),
		}
	}
	// unknown members are IGNORED whatever they hold — values the known members accept (deep nesting, numbers beyond f64) included
	{
		use jsonrpsee_types::{Request, Notification};
		let deep = format!("{}1{}", "[".repeat(200), "]".repeat(200));
		let payloads: Vec<(&str, String)> = vec![("a 200-level nested array", deep.clone()), ("the number 1e999", "1e999".into()), ("the number -1E+400", "-1E+400".into()),
			("a 40-digit integer", "1234567890123456789012345678901234567890".into()), ("an object with a duplicate key", r#"{"a":1,"a":2}"#.into())];
		for (what, pl) in &payloads {
			for text in [format!(r#"{{"jsonrpc":"2.0","x":{pl},"id":1,"result":true}}"#), format!(r#"{{"jsonrpc":"2.0","id":1,"x":{pl},"result":true}}"#), format!(r#"{{"jsonrpc":"2.0","id":1,"error":{{"code":-32000,"message":"m"}},"x":{pl}}}"#)] {
				tried += 1;
				if let Err(e) = serde_json::from_str::<Response<&serde_json::value::RawValue>>(&text) {
					return json!({"probe":"response_member_forms","disagrees":true,"input":format!("response with an unknown member holding {what}: {}", &text[..text.len().min(120)]),"observed":format!("rejected: {e}"),"expected":"accepted (unknown members are ignored)"});
				}
			}
		}
		// the version marker in ANY JSON spelling, on requests and notifications as well
		for ver in [r#""2\u002e0""#, r#""\u0032.0""#, r#""2.\u0030""#] {
			tried += 2;
			let rq = format!(r#"{{"jsonrpc":{ver},"id":7,"method":"add","params":[1,2]}}"#);
			let nt = format!(r#"{{"jsonrpc":{ver},"method":"add","params":[1,2]}}"#);
			if let Err(e) = serde_json::from_str::<Request>(&rq) {
				return json!({"probe":"response_member_forms","disagrees":true,"input":rq,"observed":format!("request rejected: {e}"),"expected":"accepted: the member spells 2.0"});
			}
			if let Err(e) = serde_json::from_str::<Notification<Option<&serde_json::value::RawValue>>>(&nt) {
				return json!({"probe":"response_member_forms","disagrees":true,"input":nt,"observed":format!("notification rejected: {e}"),"expected":"accepted: the member spells 2.0"});
			}
		}
	}
	json!({"probe":"response_member_forms","disagrees":false,"inputs_tried":tried,"bound":"all member sequences of length 1..4 over 9 member tokens (jsonrpc x4 spellings, id x2, result, error, unknown); 5 request/notification round trips; 5 awkward payloads under an unknown member x 3 positions; 3 escaped spellings of the version on requests and notifications"})
}

// ------------------------------------------------------------------------------------------
/// C04 / C06: subscription ids that are awkward as JSON (digit strings, text needing escapes, text that looks like an escape):
/// every notification carries EXACTLY the id the accepting response returned; unsubscribe answers true exactly for that id (same
/// JSON value, same type) and false for a look-alike. Real WS server, raw frames, custom id provider.
pub fn subscription_string_ids() -> Value {
	use jsonrpsee_client_transport::ws::WsTransportClientBuilder;
	use jsonrpsee_core::client::{ReceivedMessage, TransportReceiverT, TransportSenderT};
	use jsonrpsee_core::server::SubscriptionMessage;
	use jsonrpsee_types::SubscriptionId;
	use std::sync::atomic::{AtomicUsize, Ordering};
	#[derive(Debug)]
	struct Cycle(AtomicUsize, Vec<SubscriptionId<'static>>);
	impl jsonrpsee_core::traits::IdProvider for Cycle { fn next_id(&self) -> SubscriptionId<'static> { let k = self.0.fetch_add(1, Ordering::SeqCst); self.1[k % self.1.len()].clone() } }
	let ids: Vec<SubscriptionId<'static>> = vec![
		SubscriptionId::Str("1".into()), SubscriptionId::Num(1), SubscriptionId::Str("007".into()), SubscriptionId::Str("topic\\u0041".into()), SubscriptionId::Str("a\"b".into()),
		SubscriptionId::Str("\u{e9}\n\t".into()), SubscriptionId::Str("18446744073709551616".into()), SubscriptionId::Str("back\\slash".into()), SubscriptionId::Num(u64::MAX),
	];
	let n_ids = ids.len();
	rt().block_on(async move {
		let fail = |input: String, obs: String, exp: String| json!({"probe":"subscription_string_ids","disagrees":true,"input":input,"observed":obs,"expected":exp});
		let cfg = jsonrpsee_server::ServerConfig::builder().set_id_provider(Cycle(AtomicUsize::new(0), ids.clone())).build();
		let server = match jsonrpsee_server::Server::builder().set_config(cfg).build("127.0.0.1:0").await { Ok(s) => s, Err(e) => return json!({"probe":"subscription_string_ids","error":e.to_string()}) };
		let addr = server.local_addr().unwrap();
		let mut module = RpcModule::new(());
		module
			.register_subscription("sub", "notif", "unsub", |_, pending, _, _| async move {
				let sink = match pending.accept().await { Ok(s) => s, Err(_) => return };
				let raw = |s: &str| SubscriptionMessage::from(serde_json::value::RawValue::from_string(s.to_string()).unwrap());
				let _ = sink.send(raw("1")).await;
				let _ = sink.send(raw("2")).await;
				sink.closed().await;
			})
			.unwrap();
		let _handle = server.start(module);
		let url = url::Url::parse(&format!("ws://{}", addr)).unwrap();
		let (mut tx, mut rx) = match WsTransportClientBuilder::default().build(url).await { Ok(x) => x, Err(e) => return json!({"probe":"subscription_string_ids","error":e.to_string()}) };
		async fn next_frame<R: TransportReceiverT>(rx: &mut R, ms: u64) -> Option<Value> {
			match tokio::time::timeout(std::time::Duration::from_millis(ms), rx.receive()).await {
				Ok(Ok(ReceivedMessage::Text(t))) => serde_json::from_str(&t).ok(),
				Ok(Ok(ReceivedMessage::Bytes(b))) => serde_json::from_slice(&b).ok(),
				_ => None,
			}
		}
		let mut call_id = 0u64;
		for k in 0..n_ids {
			let want_id: Value = match &ids[k] { SubscriptionId::Num(n) => json!(n), SubscriptionId::Str(s) => json!(s.as_ref()) };
			call_id += 1;
			let _ = tx.send(json!({"jsonrpc":"2.0","id":call_id,"method":"sub"}).to_string()).await;
			let mut accepted: Option<Value> = None;
			let mut notif_ids: Vec<Value> = Vec::new();
			for _ in 0..3 {
				match next_frame(&mut rx, 1500).await {
					Some(f) if f["id"] == json!(call_id) => accepted = Some(f["result"].clone()),
					Some(f) if f["method"] == json!("notif") => notif_ids.push(f["params"]["subscription"].clone()),
					_ => {}
				}
			}
			let desc = format!("subscription whose id is {want_id} (id provider), accepted, the handler sends two notifications");
			if accepted.as_ref() != Some(&want_id) {
				return fail(desc, format!("accepting response carries {:?}", accepted), format!("{want_id}"));
			}
			if notif_ids != vec![want_id.clone(), want_id.clone()] {
				return fail(desc, format!("notifications carry the ids {}", Value::Array(notif_ids)), format!("two notifications carrying exactly {want_id}"));
			}
			// a look-alike of the other JSON type names NO subscription: false, and the subscription stays
			let lookalike: Option<Value> = match &ids[k] { SubscriptionId::Num(n) => Some(json!(n.to_string())), SubscriptionId::Str(s) => s.parse::<u64>().ok().filter(|n| n.to_string() == s.as_ref() || true).map(|n| json!(n)) };
			let mut ask = |idv: Value, cid: u64| json!({"jsonrpc":"2.0","id":cid,"method":"unsub","params":[idv]}).to_string();
			if let Some(l) = lookalike {
				if l != want_id {
					call_id += 1;
					let _ = tx.send(ask(l.clone(), call_id)).await;
					let r = next_frame(&mut rx, 1500).await.unwrap_or(Value::Null);
					if r["result"] != json!(false) {
						return fail(format!("active subscription {want_id}; unsubscribe naming the look-alike {l}"), r.to_string(), "false (no such subscription)".into());
					}
				}
			}
			call_id += 1;
			let _ = tx.send(ask(want_id.clone(), call_id)).await;
			let r = next_frame(&mut rx, 1500).await.unwrap_or(Value::Null);
			if r["result"] != json!(true) {
				return fail(format!("active subscription {want_id}; unsubscribe naming exactly that id"), r.to_string(), "true".into());
			}
			call_id += 1;
			let _ = tx.send(ask(want_id.clone(), call_id)).await;
			let r = next_frame(&mut rx, 1500).await.unwrap_or(Value::Null);
			if r["result"] != json!(false) {
				return fail(format!("subscription {want_id} already unsubscribed; unsubscribe again"), r.to_string(), "false".into());
			}
		}
		json!({"probe":"subscription_string_ids","disagrees":false,"histories_tried":n_ids,"bound":"9 subscription ids (digit strings, numbers, text needing JSON escapes, text that looks like an escape) on one connection: accept, two notifications, look-alike unsubscribe, unsubscribe, repeat"})
	})
}

// ------------------------------------------------------------------------------------------
/// C08 over WebSocket: the reply to a SUBSCRIBE call -- accepting (long subscription ids from the id provider) or rejecting (error
/// object with large data) -- is at most max_response_body_size bytes, or the fixed "too big" error carrying the call's id.
pub fn subscribe_reply_size_limit() -> Value {
	use jsonrpsee_client_transport::ws::WsTransportClientBuilder;
	use jsonrpsee_core::client::{ReceivedMessage, TransportReceiverT, TransportSenderT};
	use jsonrpsee_types::{ErrorObjectOwned, SubscriptionId};
	#[derive(Debug)]
	struct Long(usize);
	impl jsonrpsee_core::traits::IdProvider for Long { fn next_id(&self) -> SubscriptionId<'static> { SubscriptionId::Str("s".repeat(self.0).into()) } }
	rt().block_on(async move {
		let fail = |input: String, obs: String| json!({"probe":"subscribe_reply_size_limit","disagrees":true,"input":input,"observed":obs,
			"expected":"a reply of at most max_response_body_size bytes, or the -32008 'Response is too big' error carrying the call's id"});
		let mut tried = 0u64;
		for limit in [120u32, 200, 400] {
			for id_len in [8usize, limit as usize - 60, limit as usize - 30, limit as usize, limit as usize + 300] {
				let cfg = jsonrpsee_server::ServerConfig::builder().max_response_body_size(limit).set_id_provider(Long(id_len)).build();
				let server = match jsonrpsee_server::Server::builder().set_config(cfg).build("127.0.0.1:0").await { Ok(s) => s, Err(e) => return json!({"probe":"subscribe_reply_size_limit","error":e.to_string()}) };
				let addr = server.local_addr().unwrap();
				let mut module = RpcModule::new(());
				module
					.register_subscription("sub", "notif", "unsub", |_, pending, _, _| async move {
						// accept() panics (as documented) when the id does not fit; the reply has gone out by then
						if let Ok(sink) = pending.accept().await { sink.closed().await; }
					})
					.unwrap();
				module
					.register_subscription("sub_reject", "notif2", "unsub2", |params, pending, _, _| async move {
						let n: usize = params.one().unwrap_or(0);
						pending.reject(ErrorObjectOwned::owned(-32000, "rejected", Some("a".repeat(n)))).await;
					})
					.unwrap();
				let handle = server.start(module);
				let url = url::Url::parse(&format!("ws://{}", addr)).unwrap();
				let (mut tx, mut rx) = match WsTransportClientBuilder::default().build(url).await { Ok(x) => x, Err(e) => return json!({"probe":"subscribe_reply_size_limit","error":e.to_string()}) };
				let reqs = [
					(format!("limit {limit}: subscribe call accepted with a subscription id of {id_len} characters (id provider)"), json!({"jsonrpc":"2.0","id":1,"method":"sub"})),
					(format!("limit {limit}: subscribe call rejected with an error object whose data has {id_len} characters"), json!({"jsonrpc":"2.0","id":1,"method":"sub_reject","params":[id_len]})),
				];
				for (desc, req) in reqs {
					tried += 1;
					let _ = tx.send(req.to_string()).await;
					let text = match tokio::time::timeout(std::time::Duration::from_millis(1500), rx.receive()).await {
						Ok(Ok(ReceivedMessage::Text(t))) => t,
						Ok(Ok(ReceivedMessage::Bytes(b))) => String::from_utf8_lossy(&b).to_string(),
						other => return fail(desc, format!("no reply: {:?}", other.map(|r| r.map(|_| ()).map_err(|e| e.to_string())))),
					};
					let v: Value = serde_json::from_str(&text).unwrap_or(Value::Null);
					let too_big = v["error"]["code"] == json!(-32008) && v["id"] == json!(1);
					if text.len() > limit as usize && !too_big {
						return fail(desc, format!("a reply of {} bytes: {}…", text.len(), &text[..text.len().min(90)]));
					}
					if v["id"] != json!(1) {
						return fail(desc, format!("the reply does not carry the call's id: {}", &text[..text.len().min(120)]));
					}
				}
				let _ = handle.stop();
			}
		}
		json!({"probe":"subscribe_reply_size_limit","disagrees":false,"inputs_tried":tried,"bound":"limits {120, 200, 400} x 5 sizes around the limit x {accepting reply with a long subscription id, rejecting reply with large error data}"})
	})
}

// ------------------------------------------------------------------------------------------
/// C02 over WebSocket, batches whose entries call subscription / unsubscription methods: the reply is ONE array with one
/// response per call entry, and no response to a batch entry travels outside that array. Real WS server, raw frames.
/// Reports EVERY failing history (as a list), so that a recorded finding for one history does not hide another.
pub fn batch_subscribe_entry() -> Value {
	use jsonrpsee_client_transport::ws::WsTransportClientBuilder;
	use jsonrpsee_core::client::{ReceivedMessage, TransportReceiverT, TransportSenderT};
	use jsonrpsee_core::server::SubscriptionMessage;
	rt().block_on(async move {
		let server = match jsonrpsee_server::Server::builder().build("127.0.0.1:0").await { Ok(s) => s, Err(e) => return json!({"probe":"batch_subscribe_entry","error":e.to_string()}) };
		let addr = server.local_addr().unwrap();
		let mut module = RpcModule::new(());
		module.register_method("add", |p, _, _| { let v: Vec<u64> = p.parse().unwrap_or_default(); v.iter().sum::<u64>() }).unwrap();
		module
			.register_subscription("sub", "notif", "unsub", |_, pending, _, _| async move {
				let sink = match pending.accept().await { Ok(s) => s, Err(_) => return };
				let _ = sink.send(SubscriptionMessage::from(serde_json::value::RawValue::from_string("1".to_string()).unwrap())).await;
				sink.closed().await;
			})
			.unwrap();
		module
			.register_subscription("sub_rejecting", "notif2", "unsub2", |_, pending, _, _| async move {
				pending.reject(jsonrpsee_types::ErrorObject::owned(-32000, "no", None::<()>)).await;
			})
			.unwrap();
		let _handle = server.start(module);
		async fn frames(addr: std::net::SocketAddr, msg: String) -> Result<Vec<Value>, String> {
			let url = url::Url::parse(&format!("ws://{}", addr)).unwrap();
			let (mut tx, mut rx) = WsTransportClientBuilder::default().build(url).await.map_err(|e| e.to_string())?;
			tx.send(msg).await.map_err(|e| e.to_string())?;
			let mut out = Vec::new();
			loop {
				match tokio::time::timeout(std::time::Duration::from_millis(700), rx.receive()).await {
					Ok(Ok(ReceivedMessage::Text(t))) => out.push(serde_json::from_str(&t).unwrap_or(json!({"unparsable": t}))),
					Ok(Ok(ReceivedMessage::Bytes(b))) => out.push(serde_json::from_slice(&b).unwrap_or(Value::Null)),
					_ => break,
				}
			}
			Ok(out)
		}
		let call = |id: u64| json!({"jsonrpc":"2.0","id":id,"method":"add","params":[id]});
		let histories: Vec<(&str, Value, Vec<u64>)> = vec![
			("batch [call 1, call 2] (control)", json!([call(1), call(2)]), vec![1, 2]),
			("batch [call 1, unsubscribe of an unknown id 2]", json!([call(1), {"jsonrpc":"2.0","id":2,"method":"unsub","params":[99]}]), vec![1, 2]),
			("batch [call 1, subscribe 2 (handler accepts)]", json!([call(1), {"jsonrpc":"2.0","id":2,"method":"sub"}]), vec![1, 2]),
			("batch [subscribe 1 (handler accepts)]", json!([{"jsonrpc":"2.0","id":1,"method":"sub"}]), vec![1]),
			("batch [call 1, subscribe 2 (handler rejects)]", json!([call(1), {"jsonrpc":"2.0","id":2,"method":"sub_rejecting"}]), vec![1, 2]),
		];
		let mut failing: Vec<Value> = Vec::new();
		let mut observed: Vec<Value> = Vec::new();
		for (what, msg, ids) in &histories {
			let fs = match frames(addr, msg.to_string()).await { Ok(f) => f, Err(e) => return json!({"probe":"batch_subscribe_entry","error":e}) };
			let arrays: Vec<&Value> = fs.iter().filter(|f| f.is_array()).collect();
			// responses (frames carrying an id) that travel OUTSIDE an array; subscription notifications carry no id
			let outside: Vec<&Value> = fs.iter().filter(|f| f.is_object() && f.get("id").is_some()).collect();
			// each failing history is reported with the KIND of failure, so that a recorded finding of one kind does not hide another
			let mut why: Vec<(&str, String)> = Vec::new();
			if arrays.len() != 1 { why.push(("not exactly one array frame", format!("{} array frames", arrays.len()))); }
			if let Some(a) = arrays.first() {
				let mut got: Vec<u64> = a.as_array().unwrap().iter().filter_map(|e| e["id"].as_u64()).collect();
				got.sort();
				if &got != ids { why.push(("the array does not answer every call entry exactly once", format!("the array answers ids {got:?}"))); }
			}
			if !outside.is_empty() { why.push(("a response is delivered outside the array", format!("{} response(s) outside the array: {}", outside.len(), Value::Array(outside.iter().map(|v| (*v).clone()).collect())))); }
			for (kind, detail) in why {
				failing.push(json!(format!("{what} -- {kind}")));
				observed.push(json!(format!("{what}: {detail}")));
			}
		}
		if failing.is_empty() {
			json!({"probe":"batch_subscribe_entry","disagrees":false,"histories_tried":histories.len(),"bound":"5 batches over one WS server: plain calls, an unsubscribe call, subscribe calls whose handler accepts / rejects"})
		} else {
			json!({"probe":"batch_subscribe_entry","disagrees":true,"input":failing,"observed":observed,
				"expected":"exactly one array frame answering every call entry once, and no response to a batch entry outside it",
				"bound":"5 batches over one WS server: plain calls, an unsubscribe call, subscribe calls whose handler accepts / rejects"})
		}
	})
}

// ------------------------------------------------------------------------------------------
/// C06: an unsubscribe that arrives right after the accepting response names an ACTIVE subscription: it is answered true (and a
/// repeat false). The client unsubscribes the moment it has read the response; the server's handler task and the connection
/// task run on different worker threads, so the unsubscribe races with whatever `accept()` still has to do after queueing the
/// response. Real WS server (4 worker threads), raw frames, `rounds` subscriptions one after the other.
pub fn accept_then_immediate_unsubscribe() -> Value {
	use jsonrpsee_client_transport::ws::WsTransportClientBuilder;
	use jsonrpsee_core::client::{ReceivedMessage, TransportReceiverT, TransportSenderT};
	let rounds = 150usize;
	let mut wrong: Vec<String> = Vec::new();
	for round in 0..rounds {
		// a fresh 2-thread runtime, server and connection per round: the FIRST subscription meets cold tasks, and the handler
		// task, the connection task and the client share two workers
		let res = tokio::runtime::Builder::new_multi_thread().worker_threads(2).enable_all().build().unwrap().block_on(async move {
			let server = jsonrpsee_server::Server::builder().build("127.0.0.1:0").await.map_err(|e| e.to_string())?;
			let addr = server.local_addr().unwrap();
			let (ev_tx, ev_rx) = std::sync::mpsc::channel::<String>();
			let mut module = RpcModule::new(ev_tx);
			module
				.register_subscription("sub", "notif", "unsub", |_, pending, ctx, _| async move {
					let sink = match pending.accept().await { Ok(s) => s, Err(_) => { let _ = ctx.send("accept failed".into()); return } };
					let _ = ctx.send("accepted".into());
					sink.closed().await;
					let _ = ctx.send(format!("closed() returned, is_closed={}", sink.is_closed()));
				})
				.unwrap();
			let _handle = server.start(module);
			let url = url::Url::parse(&format!("ws://{}", addr)).unwrap();
			let (mut tx, mut rx) = WsTransportClientBuilder::default().build(url).await.map_err(|e| e.to_string())?;
			async fn reply_to<R: TransportReceiverT>(rx: &mut R, id: u64) -> Value {
				for _ in 0..8 {
					let f: Option<Value> = match tokio::time::timeout(std::time::Duration::from_millis(2000), rx.receive()).await {
						Ok(Ok(ReceivedMessage::Text(t))) => serde_json::from_str(&t).ok(),
						Ok(Ok(ReceivedMessage::Bytes(b))) => serde_json::from_slice(&b).ok(),
						_ => None,
					};
					match f { Some(v) if v["id"] == json!(id) => return v, Some(_) => continue, None => return Value::Null }
				}
				Value::Null
			}
			let _ = tx.send(json!({"jsonrpc":"2.0","id":1,"method":"sub"}).to_string()).await;
			let acc = reply_to(&mut rx, 1).await;
			let sid = acc["result"].clone();
			if sid.is_null() { return Err(format!("subscribe not accepted: {acc}")); }
			let _ = tx.send(json!({"jsonrpc":"2.0","id":2,"method":"unsub","params":[sid]}).to_string()).await;
			let first = reply_to(&mut rx, 2).await;
			let _ = tx.send(json!({"jsonrpc":"2.0","id":3,"method":"unsub","params":[sid]}).to_string()).await;
			let second = reply_to(&mut rx, 3).await;
			tokio::time::sleep(std::time::Duration::from_millis(20)).await;
			let evs: Vec<String> = ev_rx.try_iter().collect();
			let mut evs = evs;
			evs.push(format!("accept response {acc}; unsubscribe responses {first} / {second}"));
			Ok::<(Value, Value, Vec<String>), String>((first["result"].clone(), second["result"].clone(), evs))
		});
		match res {
			Err(e) => return json!({"probe":"accept_then_immediate_unsubscribe","error":e}),
			Ok((first, second, evs)) => {
				if first != json!(true) || second != json!(false) {
					wrong.push(format!("round {round}: first unsubscribe -> {first}, repeat -> {second}; handler events: {evs:?}"));
					if wrong.len() >= 3 { break; }
				}
			}
		}
	}
	if wrong.is_empty() {
		json!({"probe":"accept_then_immediate_unsubscribe","disagrees":false,"histories_tried":rounds,"bound":"150 rounds, each on a fresh 2-thread runtime / server / connection: subscribe, unsubscribe at once, unsubscribe again"})
	} else {
		json!({"probe":"accept_then_immediate_unsubscribe","disagrees":true,"input":"subscribe, read the accepting response, unsubscribe that id at once, unsubscribe it again","observed":wrong,
			"expected":"true then false, in every round","bound":"150 rounds, each on a fresh 2-thread runtime / server / connection"})
	}
}

// ------------------------------------------------------------------------------------------
/// C04: once a subscription is closed by a successful unsubscribe its sink stays closed — even if a LATER subscription on the
/// same connection is given the same id by the id provider. Real WS server, raw frames.
pub fn subscription_id_reuse() -> Value {
	use jsonrpsee_client_transport::ws::WsTransportClientBuilder;
	use jsonrpsee_core::client::{ReceivedMessage, TransportReceiverT, TransportSenderT};
	use jsonrpsee_core::server::SubscriptionMessage;
	use jsonrpsee_types::SubscriptionId;
	use std::sync::atomic::{AtomicUsize, Ordering};
	#[derive(Debug)]
	struct SameId;
	impl jsonrpsee_core::traits::IdProvider for SameId { fn next_id(&self) -> SubscriptionId<'static> { SubscriptionId::Num(7) } }
	rt().block_on(async {
		let fail = |input: &str, obs: String, exp: &str| json!({"probe":"subscription_id_reuse","disagrees":true,"input":input,"observed":obs,"expected":exp});
		let server = match jsonrpsee_server::Server::builder().set_config(jsonrpsee_server::ServerConfig::builder().set_id_provider(SameId).build()).build("127.0.0.1:0").await { Ok(s) => s, Err(e) => return json!({"probe":"subscription_id_reuse","error":e.to_string()}) };
		let addr = server.local_addr().unwrap();
		let go = std::sync::Arc::new(tokio::sync::Notify::new());
		let (rep_tx, mut rep_rx) = tokio::sync::mpsc::unbounded_channel::<String>();
		let mut module = RpcModule::new((AtomicUsize::new(0), go.clone(), rep_tx));
		module
			.register_subscription("sub", "notif", "unsub", |_, pending, ctx, _| async move {
				let nth = ctx.0.fetch_add(1, Ordering::SeqCst);
				let sink = match pending.accept().await { Ok(s) => s, Err(_) => return };
				let raw = |s: &str| SubscriptionMessage::from(serde_json::value::RawValue::from_string(s.to_string()).unwrap());
				if nth == 0 {
					ctx.1.notified().await;
					let closed = sink.is_closed();
					let sent = sink.send(raw("\"a\"")).await.is_ok();
					let _ = ctx.2.send(format!("first closed={closed} sent={sent}"));
				} else {
					let _ = sink.send(raw("\"b\"")).await;
					tokio::time::sleep(std::time::Duration::from_millis(400)).await;
				}
			})
			.unwrap();
		let _handle = server.start(module);
		let url = url::Url::parse(&format!("ws://{}", addr)).unwrap();
		let (mut tx, mut rx) = match WsTransportClientBuilder::default().build(url).await { Ok(x) => x, Err(e) => return json!({"probe":"subscription_id_reuse","error":e.to_string()}) };
		async fn next_frame<R: TransportReceiverT>(rx: &mut R, ms: u64) -> Option<Value> {
			match tokio::time::timeout(std::time::Duration::from_millis(ms), rx.receive()).await {
				Ok(Ok(ReceivedMessage::Text(t))) => serde_json::from_str(&t).ok(),
				Ok(Ok(ReceivedMessage::Bytes(b))) => serde_json::from_slice(&b).ok(),
				_ => None,
			}
		}
		let _ = tx.send(json!({"jsonrpc":"2.0","id":1,"method":"sub"}).to_string()).await;
		let r1 = next_frame(&mut rx, 2000).await.unwrap_or(Value::Null);
		if r1["result"] != json!(7) { return fail("subscribe #1", r1.to_string(), "accepted with subscription id 7"); }
		let _ = tx.send(json!({"jsonrpc":"2.0","id":2,"method":"unsub","params":[7]}).to_string()).await;
		let r2 = next_frame(&mut rx, 2000).await.unwrap_or(Value::Null);
		if r2["result"] != json!(true) { return fail("unsubscribe [7] after subscribe #1", r2.to_string(), "true"); }
		let _ = tx.send(json!({"jsonrpc":"2.0","id":3,"method":"sub"}).to_string()).await;
		let mut notifs: Vec<Value> = Vec::new();
		let mut accepted2 = false;
		for _ in 0..3 {
			if let Some(f) = next_frame(&mut rx, 1000).await {
				if f["id"] == json!(3) { accepted2 = f["result"] == json!(7); } else if f["method"] == json!("notif") { notifs.push(f["params"]["result"].clone()); }
				if accepted2 && !notifs.is_empty() { break; }
			}
		}
		if !accepted2 { return fail("subscribe #2 (the id provider hands out id 7 again)", "not accepted".into(), "accepted with subscription id 7"); }
		go.notify_one();
		let rep = tokio::time::timeout(std::time::Duration::from_secs(2), rep_rx.recv()).await.ok().flatten().unwrap_or_default();
		while let Some(f) = next_frame(&mut rx, 300).await {
			if f["method"] == json!("notif") { notifs.push(f["params"]["result"].clone()); }
		}
		let input = "subscribe (id 7); unsubscribe [7] -> true; subscribe again (id 7 reused); then the FIRST handler, idle so far, checks is_closed() and sends";
		if rep != "first closed=true sent=false" {
			return fail(input, rep, "the first subscription's sink reports closed and its send fails");
		}
		if notifs != vec![json!("b")] {
			return fail(input, format!("notifications delivered for subscription 7: {}", Value::Array(notifs)), "only [\"b\"] (the second subscription's own)");
		}
		// the first handler has now finished and dropped its (closed) sink: the SECOND subscription, which nobody unsubscribed and
		// whose handler still holds its sink, is still active — unsubscribing it answers true
		tokio::time::sleep(std::time::Duration::from_millis(50)).await;
		let _ = tx.send(json!({"jsonrpc":"2.0","id":4,"method":"unsub","params":[7]}).to_string()).await;
		let mut r4 = Value::Null;
		for _ in 0..3 {
			if let Some(f) = next_frame(&mut rx, 1000).await { if f["id"] == json!(4) { r4 = f; break; } }
		}
		if r4["result"] != json!(true) {
			return fail("... then the first handler drops its sink, and the client unsubscribes [7] (the second subscription, still held by its handler)", r4.to_string(), "true (the second subscription was active until this unsubscribe)");
		}
		json!({"probe":"subscription_id_reuse","disagrees":false,"histories_tried":1,"bound":"one connection, two subscriptions sharing id 7, one unsubscribe in between, the first sink dropped after the second was accepted"})
	})
}

// ------------------------------------------------------------------------------------------
/// C03 (schedules of the background tasks): a response that the transport delivers in fragments — its `receive()` future
/// holding the part read so far — still completes its call while timer ticks (ping / inactivity checks) fire in between.
pub fn client_fragmented_reply_with_timers() -> Value {
	use jsonrpsee_core::client::async_client::PingConfig;
	rt().block_on(async {
		let mut tried = 0;
		for gap_ms in [30u64, 120, 260] {
			tried += 1;
			let ping = PingConfig::new().ping_interval(std::time::Duration::from_secs(10)).inactive_limit(std::time::Duration::from_millis(60)).max_failures(10_000);
			let (c, mut from_client, to_client) = mock::fragment_client(ClientBuilder::default().enable_ws_ping(ping).request_timeout(std::time::Duration::from_secs(3)));
			let c = std::sync::Arc::new(c);
			let (c1, c2) = (c.clone(), c.clone());
			let f1 = tokio::spawn(async move { c1.request::<String, _>("m", rpc_params![1]).await.map_err(|e| e.to_string()) });
			let f2 = tokio::spawn(async move { c2.request::<String, _>("m", rpc_params![2]).await.map_err(|e| e.to_string()) });
			let mut ids = Vec::new();
			for _ in 0..2 {
				let m = tokio::time::timeout(std::time::Duration::from_secs(2), from_client.recv()).await.ok().flatten().unwrap_or_default();
				let v: Value = serde_json::from_str(&m).unwrap_or(Value::Null);
				ids.push((v["id"].clone(), v["params"][0].as_u64().unwrap_or(0)));
			}
			// answer in reverse order; the first answer arrives in two fragments `gap_ms` apart
			let (ida, ka) = ids[1].clone();
			let (idb, kb) = ids[0].clone();
			let a = json!({"jsonrpc":"2.0","id":ida,"result":format!("answer-{ka}")}).to_string();
			let (a1, a2) = a.split_at(a.len() / 2);
			let _ = to_client.send(a1.to_string());
			tokio::time::sleep(std::time::Duration::from_millis(gap_ms)).await;
			let _ = to_client.send(format!("{a2}\n"));
			let _ = to_client.send(format!("{}\n", json!({"jsonrpc":"2.0","id":idb,"result":format!("answer-{kb}")})));
			let r1 = tokio::time::timeout(std::time::Duration::from_secs(4), f1).await.ok().and_then(|x| x.ok());
			let r2 = tokio::time::timeout(std::time::Duration::from_secs(4), f2).await.ok().and_then(|x| x.ok());
			if r1 != Some(Ok("answer-1".to_string())) || r2 != Some(Ok("answer-2".to_string())) {
				return json!({"probe":"client_fragmented_reply_with_timers","disagrees":true,
					"input": format!("2 concurrent calls, inactivity tick every 60 ms; the first answer arrives in two fragments {gap_ms} ms apart (the transport's receive() future holds the first fragment), then the second answer"),
					"observed": format!("call 1 -> {:?}, call 2 -> {:?}", r1, r2), "expected":"call 1 -> answer-1, call 2 -> answer-2"});
			}
		}
		json!({"probe":"client_fragmented_reply_with_timers","disagrees":false,"histories_tried":tried,"bound":"3 fragment gaps (30, 120, 260 ms) against a 60 ms inactivity tick"})
	})
}

// ------------------------------------------------------------------------------------------
/// C04 through generated code: a subscription declared with the `rpc` macro — as an `async fn` or as a plain `fn`, with a
/// notification name that differs from the subscribe name — sends its notifications under ITS notification method name and
/// its own subscription id (the registration code exists only after macro expansion).
pub mod generated_api {
	use jsonrpsee::core::server::{PendingSubscriptionSink, SubscriptionMessage};
	use jsonrpsee::core::{SubscriptionResult, async_trait};
	use jsonrpsee::proc_macros::rpc;
	use serde_json::{Value, json};

	#[rpc(server, namespace = "chain")]
	pub trait Api {
		#[subscription(name = "subscribeAsync" => "asyncNotif", unsubscribe = "unsubscribeAsync", item = u32)]
		async fn sub_async(&self) -> SubscriptionResult;
		#[subscription(name = "subscribeSync" => "syncNotif", unsubscribe = "unsubscribeSync", item = u32)]
		fn sub_sync(&self);
		#[subscription(name = "subscribePlain", unsubscribe = "unsubscribePlain", item = u32)]
		async fn sub_plain(&self) -> SubscriptionResult;
	}
	pub struct ApiImpl;
	#[async_trait]
	impl ApiServer for ApiImpl {
		async fn sub_async(&self, pending: PendingSubscriptionSink) -> SubscriptionResult {
			let sink = pending.accept().await?;
			sink.send(serde_json::value::to_raw_value(&1_u32).unwrap()).await?;
			Ok(())
		}
		fn sub_sync(&self, pending: PendingSubscriptionSink) {
			tokio::spawn(async move {
				let Ok(mut sink) = pending.accept().await else { return };
				let _ = sink.send(serde_json::value::to_raw_value(&1_u32).unwrap()).await;
				let _ = sink.try_send(serde_json::value::to_raw_value(&2_u32).unwrap());
				if let Ok(msg) = SubscriptionMessage::new(sink.method_name(), sink.subscription_id(), &3_u32) { let _ = sink.send(msg).await; }
			});
		}
		async fn sub_plain(&self, pending: PendingSubscriptionSink) -> SubscriptionResult {
			let sink = pending.accept().await?;
			sink.send(serde_json::value::to_raw_value(&1_u32).unwrap()).await?;
			Ok(())
		}
	}
	pub fn run() -> Value {
		super::rt().block_on(async {
			let module = ApiImpl.into_rpc();
			let mut tried = 0;
			for (subscribe, notif, n) in [("chain_subscribeAsync", "chain_asyncNotif", 1usize), ("chain_subscribeSync", "chain_syncNotif", 3), ("chain_subscribePlain", "chain_subscribePlain", 1)] {
				tried += 1;
				let req = format!(r#"{{"jsonrpc":"2.0","method":"{subscribe}","id":0}}"#);
				let (rp, mut stream) = match module.raw_json_request(&req, 16).await { Ok(x) => x, Err(e) => return json!({"probe":"generated_subscription_names","error":e.to_string()}) };
				let rp: Value = serde_json::from_str(rp.get()).unwrap_or(Value::Null);
				let sub_id = rp["result"].clone();
				if sub_id.is_null() {
					return json!({"probe":"generated_subscription_names","disagrees":true,"input":req,"observed":rp.to_string(),"expected":"subscription accepted"});
				}
				for i in 1..=n {
					let msg = tokio::time::timeout(std::time::Duration::from_secs(2), stream.recv()).await.ok().flatten();
					let v: Value = msg.as_ref().and_then(|m| serde_json::from_str(m.get()).ok()).unwrap_or(Value::Null);
					if v["method"] != json!(notif) || v["params"]["subscription"] != sub_id || v["params"]["result"] != json!(i) {
						return json!({"probe":"generated_subscription_names","disagrees":true,
							"input": format!("macro-declared subscription {subscribe:?} (notification name {notif:?}); notification #{i}"),
							"observed": v.to_string(), "expected": format!("method {notif:?}, subscription {sub_id}, result {i}")});
					}
				}
			}
			json!({"probe":"generated_subscription_names","disagrees":false,"inputs_tried":tried,"bound":"3 macro-declared subscriptions (async fn / plain fn with a notification name override, async fn with the default name)"})
		})
	}
}
pub fn generated_subscription_names() -> Value { generated_api::run() }

// ------------------------------------------------------------------------------------------
/// C03 / C12 (schedules of the front-end futures): batches and single calls issued concurrently from several threads on one
/// client — every batch entry and every call completes with the answer to ITS OWN params.
pub fn client_concurrent_batches_and_calls() -> Value {
	let rt = tokio::runtime::Builder::new_multi_thread().worker_threads(8).enable_all().build().unwrap();
	rt.block_on(async {
		let c = std::sync::Arc::new(mock::echo_client(ClientBuilder::default().max_concurrent_requests(4096).request_timeout(std::time::Duration::from_secs(10))));
		let mut handles = Vec::new();
		for t in 0..6u64 {
			let c = c.clone();
			handles.push(tokio::spawn(async move {
				for round in 0..12u64 {
					if t % 3 != 2 {
						let mut b = BatchRequestBuilder::new();
						let n = 600u64;
						for k in 0..n {
							b.insert("m", rpc_params![t * 1_000_000 + round * 1000 + k]).unwrap();
						}
						match c.batch_request::<String>(b).await {
							Ok(br) => {
								let got: Vec<Result<String, String>> = br.into_iter().map(|e| e.map_err(|e| e.message().to_string())).collect();
								for (k, e) in got.iter().enumerate() {
									let want = format!("echo-{}", t * 1_000_000 + round * 1000 + k as u64);
									if e.as_ref().ok() != Some(&want) {
										return Some(format!("task {t} round {round}: batch entry {k} holds {:?}, expected {want:?}", e));
									}
								}
								if got.len() != n as usize { return Some(format!("task {t} round {round}: {} entries for a batch of {n}", got.len())); }
							}
							Err(e) => return Some(format!("task {t} round {round}: the batch call failed: {e}")),
						}
					} else {
						for k in 0..50u64 {
							let p = t * 1_000_000 + round * 1000 + k;
							match c.request::<String, _>("m", rpc_params![p]).await {
								Ok(v) if v == format!("echo-{p}") => {}
								other => return Some(format!("task {t} round {round}: call with param {p} completed with {:?}", other.map_err(|e| e.to_string()))),
							}
						}
					}
				}
				None
			}));
		}
		for h in handles {
			match tokio::time::timeout(std::time::Duration::from_secs(60), h).await {
				Ok(Ok(None)) => {}
				Ok(Ok(Some(why))) => return json!({"probe":"client_concurrent_batches_and_calls","disagrees":true,
					"input":"one client, 8 worker threads: 4 tasks x 12 batches of 600 entries and 2 tasks x 600 single calls, all answered correctly by an echo peer",
					"observed": why, "expected":"every batch entry and every call completes with the echo of its own params"}),
				other => return json!({"probe":"client_concurrent_batches_and_calls","disagrees":true,"input":"concurrent batches and calls","observed":format!("{:?}", other.map(|r| r.map(|_| ()))),"expected":"all tasks finish"}),
			}
		}
		json!({"probe":"client_concurrent_batches_and_calls","disagrees":false,"histories_tried":1,"bound":"6 tasks on 8 threads: 48 batches of 600 entries, 1200 single calls, one run"})
	})
}
