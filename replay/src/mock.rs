//! In-memory transport for the real async client (`jsonrpsee_core::client::async_client::Client`).
use jsonrpsee_core::client::async_client::{Client, ClientBuilder};
use jsonrpsee_core::client::{ReceivedMessage, TransportReceiverT, TransportSenderT};
use std::time::Duration;
use tokio::sync::mpsc;

#[derive(Debug)]
pub struct MockErr(pub String);
impl std::fmt::Display for MockErr {
	fn fmt(&self, f: &mut std::fmt::Formatter<'_>) -> std::fmt::Result {
		write!(f, "{}", self.0)
	}
}
impl std::error::Error for MockErr {}

pub struct MockSender(pub mpsc::UnboundedSender<String>);
pub struct MockReceiver(pub mpsc::UnboundedReceiver<Result<String, String>>);

impl TransportSenderT for MockSender {
	type Error = MockErr;
	fn send(&mut self, msg: String) -> impl Future<Output = Result<(), Self::Error>> + Send {
		let r = self.0.send(msg).map_err(|_| MockErr("peer gone".into()));
		async move { r }
	}
}
impl TransportReceiverT for MockReceiver {
	type Error = MockErr;
	fn receive(&mut self) -> impl Future<Output = Result<ReceivedMessage, Self::Error>> + Send {
		async move {
			match self.0.recv().await {
				Some(Ok(s)) => Ok(ReceivedMessage::Text(s)),
				Some(Err(e)) => Err(MockErr(e)),
				None => Err(MockErr("connection closed".into())),
			}
		}
	}
}

/// The "server" side of the mock: what the client wrote, and a handle to feed it messages.
pub struct Peer {
	pub from_client: mpsc::UnboundedReceiver<String>,
	pub to_client: mpsc::UnboundedSender<Result<String, String>>,
}
impl Peer {
	pub async fn next(&mut self) -> Option<String> {
		tokio::time::timeout(Duration::from_secs(2), self.from_client.recv()).await.ok().flatten()
	}
	pub fn send(&self, s: &str) {
		let _ = self.to_client.send(Ok(s.to_string()));
	}
}

pub fn client(builder: ClientBuilder) -> (Client, Peer) {
	let (tx_out, rx_out) = mpsc::unbounded_channel();
	let (tx_in, rx_in) = mpsc::unbounded_channel();
	let c = builder.build_with_tokio(MockSender(tx_out), MockReceiver(rx_in));
	(c, Peer { from_client: rx_out, to_client: tx_in })
}

pub async fn settle() {
	for _ in 0..20 {
		tokio::task::yield_now().await;
	}
	tokio::time::sleep(Duration::from_millis(30)).await;
}

/// A transport whose `send` hands the message to an auto-answering peer FIRST and only then (after a delay) returns:
/// the reply can overtake the completion of the send future.
pub struct EagerEchoSender(pub mpsc::UnboundedSender<Result<String, String>>);
impl TransportSenderT for EagerEchoSender {
	type Error = MockErr;
	fn send(&mut self, msg: String) -> impl Future<Output = Result<(), Self::Error>> + Send {
		let tx = self.0.clone();
		async move {
			let v: serde_json::Value = serde_json::from_str(&msg).unwrap_or(serde_json::Value::Null);
			let answer = |req: &serde_json::Value| serde_json::json!({"jsonrpc":"2.0","id":req["id"],"result":format!("answer-to-{}", req["id"])});
			let reply = match &v {
				serde_json::Value::Array(reqs) => serde_json::Value::Array(reqs.iter().map(answer).collect()),
				obj if obj.get("id").is_some() => answer(obj),
				_ => serde_json::Value::Null,
			};
			if !reply.is_null() {
				let _ = tx.send(Ok(reply.to_string()));
			}
			tokio::time::sleep(Duration::from_millis(40)).await;
			Ok(())
		}
	}
}
pub fn eager_echo_client(builder: ClientBuilder) -> Client {
	let (tx_in, rx_in) = mpsc::unbounded_channel();
	builder.build_with_tokio(EagerEchoSender(tx_in), MockReceiver(rx_in))
}

/// A transport whose `send` fails on the k-th message and whose `close` takes a while (as a real socket's does).
pub struct FailingSender { pub inner: mpsc::UnboundedSender<String>, pub fail_at: usize, pub count: usize, pub close_fails: bool }
impl TransportSenderT for FailingSender {
	type Error = MockErr;
	fn send(&mut self, msg: String) -> impl Future<Output = Result<(), Self::Error>> + Send {
		self.count += 1;
		let fail = self.count == self.fail_at;
		let r = if fail { Err(MockErr("broken pipe".into())) } else { self.inner.send(msg).map_err(|_| MockErr("peer gone".into())) };
		async move { r }
	}
	fn close(&mut self) -> impl Future<Output = Result<(), Self::Error>> + Send {
		async move {
			tokio::time::sleep(Duration::from_millis(50)).await;
			if self.close_fails { Err(MockErr("close failed: socket already shut down".into())) } else { Ok(()) }
		}
	}
}
pub fn failing_client(builder: ClientBuilder, fail_at: usize) -> (Client, Peer) { failing_client2(builder, fail_at, false) }
pub fn failing_client2(builder: ClientBuilder, fail_at: usize, close_fails: bool) -> (Client, Peer) {
	let (tx_out, rx_out) = mpsc::unbounded_channel();
	let (tx_in, rx_in) = mpsc::unbounded_channel();
	let c = builder.build_with_tokio(FailingSender { inner: tx_out, fail_at, count: 0, close_fails }, MockReceiver(rx_in));
	(c, Peer { from_client: rx_out, to_client: tx_in })
}

/// A transport whose `receive()` assembles one message from several fragments and keeps the partial message INSIDE the
/// future (like a WebSocket transport reading a fragmented frame): dropping the future half-way loses what was read.
pub struct FragmentReceiver(pub mpsc::UnboundedReceiver<String>);
impl TransportReceiverT for FragmentReceiver {
	type Error = MockErr;
	fn receive(&mut self) -> impl Future<Output = Result<ReceivedMessage, Self::Error>> + Send {
		async move {
			let mut buf = String::new();
			loop {
				match self.0.recv().await {
					Some(f) => {
						buf.push_str(&f);
						if buf.ends_with('\n') {
							return Ok(ReceivedMessage::Text(buf.trim_end().to_string()));
						}
					}
					None => return Err(MockErr("connection closed".into())),
				}
			}
		}
	}
}
pub fn fragment_client(builder: ClientBuilder) -> (Client, mpsc::UnboundedReceiver<String>, mpsc::UnboundedSender<String>) {
	let (tx_out, rx_out) = mpsc::unbounded_channel();
	let (tx_in, rx_in) = mpsc::unbounded_channel();
	let c = builder.build_with_tokio(MockSender(tx_out), FragmentReceiver(rx_in));
	(c, rx_out, tx_in)
}

/// An auto-answering peer without delay: every call / batch entry is answered with `echo-<its first param>` under its own id.
pub struct EchoSender(pub mpsc::UnboundedSender<Result<String, String>>);
impl TransportSenderT for EchoSender {
	type Error = MockErr;
	fn send(&mut self, msg: String) -> impl Future<Output = Result<(), Self::Error>> + Send {
		let tx = self.0.clone();
		async move {
			let v: serde_json::Value = serde_json::from_str(&msg).unwrap_or(serde_json::Value::Null);
			let answer = |req: &serde_json::Value| serde_json::json!({"jsonrpc":"2.0","id":req["id"],"result":format!("echo-{}", req["params"][0])});
			let reply = match &v {
				serde_json::Value::Array(reqs) => serde_json::Value::Array(reqs.iter().map(answer).collect()),
				obj if obj.get("id").is_some() => answer(obj),
				_ => serde_json::Value::Null,
			};
			if !reply.is_null() {
				let _ = tx.send(Ok(reply.to_string()));
			}
			Ok(())
		}
	}
}
pub fn echo_client(builder: ClientBuilder) -> Client {
	let (tx_in, rx_in) = mpsc::unbounded_channel();
	builder.build_with_tokio(EchoSender(tx_in), MockReceiver(rx_in))
}

/// A transport whose `send` of a message containing `"block"` waits until the gate is opened (the send task is busy inside the
/// transport meanwhile); every message is forwarded to the peer once sent. `entered` is signalled when the send task blocks.
pub struct GatedSender { pub inner: mpsc::UnboundedSender<String>, pub gate: std::sync::Arc<tokio::sync::Notify>, pub entered: mpsc::UnboundedSender<()> }
impl TransportSenderT for GatedSender {
	type Error = MockErr;
	fn send(&mut self, msg: String) -> impl Future<Output = Result<(), Self::Error>> + Send {
		let gate = self.gate.clone();
		let inner = self.inner.clone();
		let entered = self.entered.clone();
		async move {
			if msg.contains("\"block\"") {
				let _ = entered.send(());
				gate.notified().await;
			}
			inner.send(msg).map_err(|_| MockErr("peer gone".into()))
		}
	}
}
pub fn gated_client(builder: ClientBuilder) -> (Client, Peer, std::sync::Arc<tokio::sync::Notify>, mpsc::UnboundedReceiver<()>) {
	let (tx_out, rx_out) = mpsc::unbounded_channel();
	let (tx_in, rx_in) = mpsc::unbounded_channel();
	let (etx, erx) = mpsc::unbounded_channel();
	let gate = std::sync::Arc::new(tokio::sync::Notify::new());
	let c = builder.build_with_tokio(GatedSender { inner: tx_out, gate: gate.clone(), entered: etx }, MockReceiver(rx_in));
	(c, Peer { from_client: rx_out, to_client: tx_in }, gate, erx)
}
