//! Replay probes: drive the REAL jsonrpsee public API with concrete inputs chosen for a failed
//! obligation and report the first input on which the real code disagrees with the postcondition
//! the property demands.  A probe never decides a property (DESIGN.md §3.4).
use serde_json::json;

mod mock;
mod probes;

fn main() {
	std::panic::set_hook(Box::new(|_| {}));
	let name = std::env::args().nth(1).unwrap_or_default();
	let res = match name.as_str() {
		"error_code_roundtrip" => probes::error_code_roundtrip(),
		"client_tables_return_to_empty" => probes::client_tables_return_to_empty(),
		"client_call_routing" => probes::client_call_routing(),
		"client_batch_positional" => probes::client_batch_positional(),
		"response_size_limit" => probes::response_size_limit(),
		"params_builder_failed_insert" => probes::params_builder_failed_insert(),
		"params_builder_roundtrip" => probes::params_builder_roundtrip(),
		"http_body_chunking" => probes::http_body_chunking(),
		"http_content_type_gate" => probes::http_content_type_gate(),
		"client_survives_hostile_ids" => probes::client_survives_hostile_ids(),
		"client_subscription_array_equals_single" => probes::client_subscription_array_equals_single(),
		"registry_atomicity" => probes::registry_atomicity(),
		"ws_request_limit_paths" => probes::ws_request_limit_paths(),
		"client_reply_overtakes_send" => probes::client_reply_overtakes_send(),
		"http_client_batch_positional" => probes::http_client_batch_positional(),
		"http_client_single_reply_id" => probes::http_client_single_reply_id(),
		"client_pending_ids_distinct" => probes::client_pending_ids_distinct(),
		"client_futures_bounded_by_timeout" => probes::client_futures_bounded_by_timeout(),
		"client_positional_notification_routing" => probes::client_positional_notification_routing(),
		"subscribe_reply_size_limit" => probes::subscribe_reply_size_limit(),
		"client_lagged_stream_no_holes" => probes::client_lagged_stream_no_holes(),
		"server_message_classification" => probes::server_message_classification(),
		"client_send_failure_reports_cause" => probes::client_send_failure_reports_cause(),
		"params_sequence_agrees_with_parse" => probes::params_sequence_agrees_with_parse(),
		"host_filter_gate" => probes::host_filter_gate(),
		"subscription_bookkeeping" => probes::subscription_bookkeeping(),
		"http_method_gate" => probes::http_method_gate(),
		"response_member_forms" => probes::response_member_forms(),
		"subscription_id_reuse" => probes::subscription_id_reuse(),
		"subscription_string_ids" => probes::subscription_string_ids(),
		"batch_subscribe_entry" => probes::batch_subscribe_entry(),
		"accept_then_immediate_unsubscribe" => probes::accept_then_immediate_unsubscribe(),
		"client_fragmented_reply_with_timers" => probes::client_fragmented_reply_with_timers(),
		"generated_subscription_names" => probes::generated_subscription_names(),
		"client_concurrent_batches_and_calls" => probes::client_concurrent_batches_and_calls(),
		_ => json!({"probe": name, "error": "unknown probe"}),
	};
	println!("{}", res);
}
