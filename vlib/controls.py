"""Teeth controls: mutate the *assembled copy* of a unit (never /repo) and require Verus to reject it."""
import os
import re
import shutil

from . import runner
from .assemble import AssembleError


def run_controls(verif, repo, controls, build):
    out = []
    for c in controls:
        name = c["name"]
        try:
            asm, pairs, gen = runner.assemble_unit(repo, verif, c["unit"], os.path.join(build, "controls"))
        except AssembleError as e:
            out.append({"name": name, "ok": False, "detail": "assemble: %s" % e})
            continue
        text = open(gen).read()
        new, n = re.subn(c["pattern"], c["repl"], text, count=c.get("count", 1), flags=re.S)
        if n == 0:
            out.append({"name": name, "ok": False, "detail": "control pattern no longer matches"})
            continue
        mgen = os.path.join(build, "controls", "%s_ctl_%s.rs" % (c["unit"], re.sub(r"\W+", "_", name)))
        with open(mgen, "w") as f:
            f.write(new)
        cmd, o, err, rc, wall = runner.run_verus(mgen, rlimit=c.get("rlimit", 30), extra=asm.verus_args)
        diags = [d for d in runner.parse_diags(err) if d.get("level") == "error" and runner.classify(d["message"])]
        msgs = [d["message"] + " @ " + " | ".join(runner._span_text(s)[:80] for s in d.get("spans", []) if s.get("is_primary")) for d in diags]
        want = c.get("expect")
        ok = bool(diags) and (want is None or any(want in m for m in msgs))
        out.append({"name": name, "unit": c["unit"], "kind": c.get("kind", "text"), "ok": ok,
                    "detail": (msgs[0] if msgs else "mutant verified or did not compile: rc=%s %s" % (rc, err[-300:]))[:300]})
    return out
