"""Run Verus on an assembled unit and turn its diagnostics into named obligations."""
import json
import os
import re
import shutil
import subprocess
import time

from .assemble import Assembler, AssembleError

TRUST_PATTERNS = [
    ("assume", r"(?<![A-Za-z0-9_])assume\s*\("),
    ("admit", r"(?<![A-Za-z0-9_])admit\s*\("),
    ("external_body", r"verifier::external_body"),
    ("external", r"verifier::external(?![_a-z])"),
    ("assume_specification", r"assume_specification"),
    ("uninterp", r"(?<![A-Za-z0-9_])uninterp\b"),
    ("axiom", r"(?<![A-Za-z0-9_])(?:broadcast\s+)?(?:proof\s+)?fn\s+axiom_[A-Za-z0-9_]*"),
    ("external_type_specification", r"external_type_specification"),
]

UNDECIDED_MSGS = ("Resource limit", "rlimit", "timed out", "could not", "not supported", "unsupported")


class UnitResult:
    def __init__(self, unit):
        self.unit = unit
        self.status = "ok"  # ok | failed | undecided
        self.reason = ""
        self.failures = []  # named obligations that failed
        self.verified_fns = 0
        self.error_fns = 0
        self.obligations = 0  # AIR assert count in Function-Def queries of this unit
        self.per_fn_obligations = {}
        self.solver_ms = 0
        self.wall_s = 0.0
        self.functions = []
        self.items = []
        self.rewrites = []
        self.trusted = []
        self.spec_clauses = 0
        self.canaries = {"expected": 0, "failed_as_expected": 0}
        self.raw = ""
        self.gen_path = ""
        self.fn_times = {}

    def to_json(self):
        return {k: v for k, v in self.__dict__.items() if k not in ("raw",)}


def slug(s, n=70):
    s = re.sub(r"\s+", " ", s.strip())
    return s[:n]


def scan_trusted(pairs):
    """mechanical scan of the generated file for every assumption construct"""
    found = []
    text_lines = [l for l, _ in pairs]
    for i, l in enumerate(text_lines):
        code = l.split("//")[0]
        for name, pat in TRUST_PATTERNS:
            if re.search(pat, code):
                # context: this line + next non-empty line (the item being assumed)
                ctx = code.strip()
                if name in ("external_body", "external", "external_type_specification"):
                    for j in range(i, min(i + 6, len(text_lines))):
                        nxt = text_lines[j].split("//")[0]
                        mm = re.search(r"(?:fn|struct|enum|trait|type|impl)\s+[^{;(]*", nxt)
                        if mm:
                            ctx = name + ": " + " ".join(mm.group(0).split())
                            break
                found.append(slug(("%s: %s" % (name, ctx)) if not ctx.startswith(name) else ctx, 140))
    # de-duplicate, keep order
    seen = set()
    out = []
    for f in found:
        if f not in seen:
            seen.add(f)
            out.append(f)
    return out


def assemble_unit(repo, verif, unit, build_dir, canary=False):
    asm = Assembler(repo, verif)
    tpl = os.path.join(verif, "units", unit + ".vt")
    asm.process(tpl)
    pairs = asm.out.pairs
    canary_lines = []
    if canary:
        # put `assert(false)` as first proof statement of every function under contract
        new = []
        spans = sorted(asm.fn_spans)
        # find the opening '{' line of each span (first line that is exactly '{' after span start)
        opens = {}
        for first, last, label in spans:
            for k in range(first - 1, last):
                if pairs[k][0].strip() == "{":
                    opens[k] = label
                    break
        for k, p in enumerate(pairs):
            new.append(p)
            if k in opens:
                new.append(("proof { assert(false); } // CANARY " + opens[k], ("canary", opens[k])))
        pairs = new
    os.makedirs(build_dir, exist_ok=True)
    gen = os.path.join(build_dir, unit + ("_canary" if canary else "") + ".rs")
    with open(gen, "w") as f:
        f.write("\n".join(l for l, _ in pairs) + "\n")
    return asm, pairs, gen


def run_verus(gen, log_dir=None, rlimit=30, extra=(), seed=None, timeout=900):
    cmd = ["verus", gen, "--output-json", "--time", "--multiple-errors", "20", "--error-format=json", "--rlimit", str(rlimit),
           "--num-threads", "4", "--no-report-long-running"]
    if log_dir:
        cmd += ["--log", "air", "--log-dir", log_dir]
    if seed is not None:
        cmd += ["--smt-option", "smt.random_seed=%d" % seed]
    cmd += list(extra)
    t0 = time.time()
    try:
        p = subprocess.run(cmd, capture_output=True, text=True, timeout=timeout, cwd=os.path.dirname(gen))
        out, err, rc = p.stdout, p.stderr, p.returncode
    except subprocess.TimeoutExpired as e:
        out, err, rc = "", "TIMEOUT", 124
    return cmd, out, err, rc, time.time() - t0


def count_air_asserts(log_dir, crate):
    """obligations = number of (assert …) nodes inside `;; Function-Def <crate>::…` check-valid queries"""
    per_fn = {}
    if not os.path.isdir(log_dir):
        return per_fn
    # one .air file per module of the assembled file (root.air plus one per nested `mod`)
    for name in sorted(os.listdir(log_dir)):
        if name.endswith(".air"):
            _count_air_file(os.path.join(log_dir, name), crate, per_fn)
    return per_fn


def _count_air_file(p, crate, per_fn):
    cur = None
    with open(p, errors="replace") as f:
        for line in f:
            if line.startswith(";; ") and re.match(r";; [A-Za-z]+-[A-Za-z]+ ", line):
                mm = re.match(r";; Function-Def (\S+)", line)
                cur = mm.group(1) if mm else None
                if cur is not None and not cur.startswith(crate + "::"):
                    cur = None
                continue
            if cur is not None:
                n = len(re.findall(r"\(assert\b", line))
                if n:
                    per_fn[cur] = per_fn.get(cur, 0) + n
    return per_fn


def parse_diags(err):
    diags = []
    for line in err.split("\n"):
        line = line.strip()
        if not line.startswith("{"):
            continue
        try:
            d = json.loads(line)
        except Exception:
            continue
        if d.get("$message_type") != "diagnostic":
            continue
        diags.append(d)
    return diags


KIND_OF_MSG = [
    ("postcondition not satisfied", "postcondition"),
    ("precondition not satisfied", "precondition"),
    ("invariant not satisfied at end of loop body", "invariant-preserved"),
    ("invariant not satisfied before loop", "invariant-init"),
    ("invariant not satisfied", "invariant"),
    ("possible arithmetic underflow/overflow", "overflow"),
    ("possible division by zero", "div-by-zero"),
    ("assertion failed", "assert"),
    ("decreases not satisfied", "decreases"),
    ("loop invariant not satisfied", "invariant"),
    ("unreachable", "unreachable"),
    ("possible bit shift underflow/overflow", "overflow"),
    ("recommendation not met", "recommends"),
]


def classify(msg):
    for k, v in KIND_OF_MSG:
        if k in msg:
            return v
    return None


def verify_unit(repo, verif, unit, build_dir, rlimit=30, seed=None, canary=True):
    res = UnitResult(unit)
    t0 = time.time()
    try:
        asm, pairs, gen = assemble_unit(repo, verif, unit, build_dir)
    except AssembleError as e:
        res.status = "undecided"
        res.reason = str(e)
        res.wall_s = time.time() - t0
        return res
    res.gen_path = gen
    res.functions = asm.functions
    res.items = asm.items
    res.rewrites = asm.rewrites
    res.spec_clauses = asm.spec_clauses
    res.trusted = scan_trusted(pairs)
    with open(gen + ".map.json", "w") as f:
        json.dump([o for _, o in pairs], f)
    log_dir = os.path.join(build_dir, unit + ".log")
    shutil.rmtree(log_dir, ignore_errors=True)
    cmd, out, err, rc, wall = run_verus(gen, log_dir=log_dir, rlimit=rlimit, seed=seed, extra=asm.verus_args)
    if asm.verus_args:
        res.trusted = res.trusted + ['verus flag: ' + a for a in asm.verus_args]
    res.raw = err
    res.cmd = " ".join(cmd)
    _interpret(res, asm, pairs, out, err, rc, unit)
    crate = os.path.basename(gen)[:-3].replace(".", "_").replace("-", "_")
    res.per_fn_obligations = count_air_asserts(log_dir, crate)
    res.obligations = sum(res.per_fn_obligations.values())
    shutil.rmtree(log_dir, ignore_errors=True)
    if res.status == "ok" and res.obligations == 0:
        res.status = "undecided"
        res.reason = "vacuity guard: zero obligations generated"
    # canaries: every function under contract must FAIL `assert(false)` at its entry
    if canary and res.status != "undecided":
        try:
            casm, cpairs, cgen = assemble_unit(repo, verif, unit, build_dir, canary=True)
            ccmd, cout, cerr, crc, cwall = run_verus(cgen, rlimit=rlimit, extra=casm.verus_args)
            clines = {i + 1: o[1] for i, (l, o) in enumerate(cpairs) if o[0] == "canary"}
            failed = set()
            for d in parse_diags(cerr):
                if d.get("level") != "error":
                    continue
                for sp in d.get("spans", []):
                    if sp.get("is_primary") and sp["line_start"] in clines and "assertion failed" in d["message"]:
                        failed.add(sp["line_start"])
            res.canaries = {"expected": len(clines), "failed_as_expected": len(failed)}
            missing = [clines[k] for k in clines if k not in failed]
            if missing:
                res.status = "undecided"
                res.reason = "vacuity guard: canary assert(false) verified (contradictory precondition/axiom?) in: " + ", ".join(missing)
        except AssembleError as e:
            res.status = "undecided"
            res.reason = str(e)
    res.wall_s = time.time() - t0
    return res


def _interpret(res, asm, pairs, out, err, rc, unit):
    try:
        j = json.loads(out) if out.strip() else {}
    except Exception:
        j = {}
    vr = j.get("verification-results", {})
    res.verified_fns = vr.get("verified", 0)
    res.error_fns = vr.get("errors", 0)
    try:
        smt = j["times-ms"]["smt"]
        res.solver_ms = smt.get("total", 0)
        for mod in smt.get("smt-run-module-times", []):
            for fb in mod.get("function-breakdown", []):
                res.fn_times[fb["function"]] = fb.get("time", 0)
    except Exception:
        pass
    diags = [d for d in parse_diags(err) if d.get("level") == "error"]
    if rc == 124:
        res.status = "undecided"
        res.reason = "verus timeout"
        return
    if rc == 0 and vr.get("success"):
        res.status = "ok"
        return
    gen_name = os.path.basename(res.gen_path)
    failures = []
    undecided = []
    for d in diags:
        msg = d["message"]
        if msg.startswith("aborting due to"):
            continue
        kind = classify(msg)
        spans = d.get("spans", [])
        prim = [s for s in spans if s.get("is_primary")]
        sec = [s for s in spans if not s.get("is_primary")]
        if kind is None:
            if any(u in msg for u in ("Resource limit", "rlimit")):
                where = _fn_of(asm, prim[0]["line_start"]) if prim and prim[0]["file_name"].endswith(gen_name) else "?"
                undecided.append("rlimit in %s" % where)
            else:
                loc = ""
                if prim and prim[0]["file_name"].endswith(gen_name):
                    o = pairs[prim[0]["line_start"] - 1][1]
                    loc = " at %s" % _fmt_origin(o)
                undecided.append("verus error: %s%s" % (slug(msg, 200), loc))
            continue
        ob = {"unit": unit, "kind": kind, "message": msg}
        p = prim[0] if prim else None
        if p and p["file_name"].endswith(gen_name):
            o = pairs[p["line_start"] - 1][1]
            ob["fn"] = _fn_of(asm, p["line_start"])
            ob["primary"] = {"origin": _fmt_origin(o), "text": slug(_span_text(p), 200)}
            ob["primary_is_template"] = o[0] == "tpl"
        else:
            ob["fn"] = "?"
            ob["primary"] = {"origin": "vstd:" + (p or {}).get("file_name", "?"), "text": "vstd:" + (p or {}).get("file_name", "?")}
        ob["secondary"] = []
        for s in sec:
            if s["file_name"].endswith(gen_name):
                o = pairs[s["line_start"] - 1][1]
                ob["secondary"].append({"origin": _fmt_origin(o), "text": slug(_span_text(s), 200), "label": s.get("label")})
                if ob["fn"] == "?":
                    ob["fn"] = _fn_of(asm, s["line_start"])
            else:
                ob["secondary"].append({"origin": s["file_name"] + ":%d" % s["line_start"], "text": "", "label": s.get("label")})
        # name: the clause text is the stable key (contract clause for post/inv/assert; call site + callee clause for pre)
        if kind in ("postcondition", "invariant", "invariant-preserved", "invariant-init", "assert", "decreases"):
            key = ob["primary"]["text"]
        elif kind == "precondition":
            callee = ""
            for s in ob["secondary"]:
                if s.get("label") and "failed precondition" in s["label"]:
                    callee = s["text"] or s["origin"]
            key = ob["primary"]["text"] + " :: " + callee
        else:
            key = ob["primary"]["text"]
        ob["clause"] = key
        ob["id"] = "%s::%s::%s::%s" % (unit, ob["fn"], kind, slug(key, 90))
        ob["rendered"] = d.get("rendered", "")[:3000]
        failures.append(ob)
    # Tool limit, not a property violation: a closure with a MUTABLE binding handed to an std adapter (`.map(|mut x| { ..; x })`)
    # has an effect the verifier cannot see through -- it knows the adapter's contract only in terms of the closure's own
    # (inferred, effect-free) specification. An obligation that fails in a function containing such a closure is undecided.
    _eff = re.compile(r"\.(map|and_then|map_err|map_or|map_or_else|unwrap_or_else|or_else|then|inspect|for_each)\(\s*(move\s*)?\|[^|]*\bmut\b[^|]*\|")
    for ob in list(failures):
        for first, last, label in asm.fn_spans:
            if label == ob.get("fn") and any(_eff.search(pairs[k][0]) for k in range(first - 1, min(last, len(pairs))) if pairs[k][1][0] == "src"):
                undecided.append("closure with a mutable binding passed to an std adapter in %s: its effect is outside the verifier's reach (obligation %s not decided)" % (label, slug(ob["id"], 120)))
                failures.remove(ob)
                break
    if undecided:
        res.status = "undecided"
        res.reason = "; ".join(undecided[:5])
        res.failures = failures
        return
    if failures:
        res.status = "failed"
        res.failures = failures
        return
    # non-zero exit without classified diagnostics: compile error etc.
    res.status = "undecided"
    first = ""
    for d in parse_diags(err):
        if d.get("level") == "error":
            first = d.get("rendered", d.get("message", ""))[:600]
            break
    res.reason = "verus exit %s without a classified obligation failure: %s" % (rc, first or err[-600:])


def _span_text(sp):
    t = sp.get("text") or []
    if not t:
        return ""
    if len(t) == 1:
        x = t[0]
        return x["text"][x["highlight_start"] - 1 : x["highlight_end"] - 1]
    return " ".join(x["text"].strip() for x in t)


def _fmt_origin(o):
    if o[0] == "src":
        return "/repo/%s:%d" % (o[1], o[2])
    if o[0] == "tpl":
        return "/verif/%s:%d%s" % (o[1], o[2], (" [%s]" % o[3]) if len(o) > 3 and o[3] else "")
    return ":".join(str(x) for x in o)


def _fn_of(asm, line):
    best = None
    for first, last, label in asm.fn_spans:
        if first <= line <= last:
            best = label
    if best:
        return best
    # a function written in the template itself (lemma, exec round trip): name it after the nearest `fn NAME` above the line
    pairs = getattr(asm, "out", None).pairs if getattr(asm, "out", None) is not None else []
    k = min(line, len(pairs)) - 1
    while k >= 0:
        mm = re.search(r"\bfn\s+([A-Za-z_][A-Za-z0-9_]*)", pairs[k][0])
        if mm and not pairs[k][0].lstrip().startswith("//"):
            return "<template> :: fn " + mm.group(1)
        k -= 1
    return "<template>"
