"""Kani harnesses on the real crates (out-of-tree harness crate with path dependencies on /repo)."""
import os
import re
import shutil
import subprocess
import time


def _prepare(verif, repo):
    kdir = os.path.join(verif, "kani")
    lock = os.path.join(repo, "Cargo.lock")
    if os.path.exists(lock):
        shutil.copy(lock, os.path.join(kdir, "Cargo.lock"))
    return kdir


def run_harnesses(verif, repo, harnesses, build):
    kdir = _prepare(verif, repo)
    out = []
    for h in harnesses:
        name = h["harness"]
        cmd = ["cargo", "kani", "--harness", name, "--exact", "-Z", "concrete-playback", "--concrete-playback=print"]
        cmd += h.get("args", [])
        env = dict(os.environ, CARGO_NET_OFFLINE="true", CARGO_TARGET_DIR=os.path.join(kdir, "target"))
        t0 = time.time()
        try:
            p = subprocess.run(cmd, cwd=kdir, env=env, capture_output=True, text=True, timeout=h.get("timeout", 1500))
            txt = p.stdout + "\n" + p.stderr
            rc = p.returncode
        except subprocess.TimeoutExpired:
            txt, rc = "TIMEOUT", 124
        wall = time.time() - t0
        r = {"harness": name, "wall_s": round(wall, 1), "bounded": h.get("bounded"), "claims": h.get("claims", "")}
        mm = re.search(r"\*\* (\d+) of (\d+) failed", txt)
        if mm:
            r["checks"] = int(mm.group(2))
            r["failed_checks"] = int(mm.group(1))
        if "VERIFICATION:- SUCCESSFUL" in txt:
            r["status"] = "ok"
        elif "VERIFICATION:- FAILED" in txt:
            r["status"] = "failed"
            fc = re.findall(r"Failed Checks: (.*)", txt)
            r["failed_check"] = "; ".join(fc[:3])
            cex = re.search(r"Concrete playback unit test for `[^`]*`:\n```\n(.*?)```", txt, re.S)
            if cex:
                r["counterexample"] = cex.group(1)[:4000]
            # unwinding assertion failures mean the bound was too small: undecided, not a violation
            if fc and all("unwinding assertion" in x for x in fc):
                r["status"] = "undecided"
                r["reason"] = "unwinding bound too small"
        else:
            r["status"] = "undecided"
            r["reason"] = "kani did not reach a verdict (rc=%s): %s" % (rc, txt[-800:])
        r["tail"] = txt[-1500:]
        with open(os.path.join(build, "kani_%s.log" % name), "w") as f:
            f.write(txt)
        out.append(r)
    return out
