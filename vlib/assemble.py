"""Assemble a Verus input file from a unit template (.vt) and /repo's current working tree.

A template is Verus source text with `//@` directive lines (see DESIGN.md §3).  The
assembler cuts the named items out of /repo *verbatim*, applies only the logged rewrite
rules, splices the contract clauses written in the template, and records for every output
line where it came from (template line or /repo file:line).
"""
import hashlib
import os
import re

from . import rustscan
from .rustscan import ScanError, Source

KEEP_DERIVES = {"Default", "Clone", "Copy", "PartialEq", "Eq", "Hash", "PartialOrd", "Ord"}
LOG_MACROS = [
    "tracing::trace", "tracing::debug", "tracing::info", "tracing::warn", "tracing::error",
    "tracing::event", "log::trace", "log::debug", "log::warn", "log::error", "log::info",
]


class AssembleError(Exception):
    """Lost anchor / directive problem: the unit is UNDECIDED, never a violation."""


class Lines:
    """Text as a list of (line, origin).  origin = ('src', relpath, lineno) | ('tpl', file, lineno, label)"""

    def __init__(self, pairs=None):
        self.pairs = list(pairs or [])

    @classmethod
    def from_source(cls, text, relpath, first_line):
        return cls((l, ("src", relpath, first_line + k)) for k, l in enumerate(text.split("\n")))

    def text(self):
        return "\n".join(l for l, _ in self.pairs)

    def _line_index_of_offset(self, offs):
        # returns list mapping: for each offset in offs, line index
        res = []
        starts = []
        pos = 0
        for l, _ in self.pairs:
            starts.append(pos)
            pos += len(l) + 1
        import bisect
        for o in offs:
            res.append(bisect.bisect_right(starts, o) - 1)
        return res

    def replace_span(self, a, b, repl):
        """Replace text[a:b] by repl.  Lines wholly inside keep nothing; the new lines take
        the origin of the line containing `a`."""
        t = self.text()
        ia, ib = self._line_index_of_offset([a, max(a, b - 1) if b > a else a])
        starts = 0
        for l, _ in self.pairs[:ia]:
            starts += len(l) + 1
        line_a_start = starts
        endpos = starts
        for l, _ in self.pairs[ia : ib + 1]:
            endpos += len(l) + 1
        endpos -= 1  # end of line ib (exclusive of '\n')
        new_chunk = t[line_a_start:a] + repl + t[b:endpos]
        origin = self.pairs[ia][1]
        new_pairs = [(l, origin) for l in new_chunk.split("\n")]
        # keep distinct origins for untouched trailing part when the replacement keeps line count
        old = self.pairs[ia : ib + 1]
        if len(new_pairs) == len(old):
            new_pairs = [(l, o[1]) for (l, _), o in zip(new_pairs, old)]
        self.pairs[ia : ib + 1] = new_pairs

    def insert_lines(self, idx, pairs):
        self.pairs[idx:idx] = pairs


def sha(text):
    return hashlib.sha256(text.encode()).hexdigest()[:16]


# ---------------------------------------------------------------------------- rewrite rules


def rule_D1(lines, log):
    """delete logging statements"""
    while True:
        t = lines.text()
        m = rustscan.mask(t)
        calls = rustscan.find_macro_calls(m, LOG_MACROS)
        if not calls:
            return
        a, b = calls[0]
        # swallow trailing ';'
        k = b
        while k < len(t) and t[k] in " \t":
            k += 1
        if k < len(t) and t[k] == ";":
            b = k + 1
        log.append({"rule": "D1", "before": " ".join(t[a:b].split())[:160], "after": ""})
        blank = "".join(c if c == "\n" else " " for c in t[a:b])
        lines.replace_span(a, b, blank)


def rule_D3(lines, log):
    """format!(..) used as diagnostic payload => verif_text()"""
    while True:
        t = lines.text()
        m = rustscan.mask(t)
        calls = rustscan.find_macro_calls(m, ["format"])
        if not calls:
            return
        a, b = calls[0]
        log.append({"rule": "D3", "before": " ".join(t[a:b].split())[:160], "after": "verif_text()"})
        nl = t[a:b].count("\n")
        lines.replace_span(a, b, "verif_text()" + "\n" * nl)


def rule_D32(lines, log):
    """`_ = expr;` (destructuring assignment to the wildcard: evaluate and discard) => `let _ = expr;` — same meaning;
    the verifier does not take the assignment form"""
    for k, (l, o) in enumerate(lines.pairs):
        if o[0] != "src":
            continue
        mm = re.match(r"^(\s*)_ = ", l)
        if mm:
            lines.pairs[k] = (l[: mm.end(1)] + "let _ = " + l[mm.end():], o)
            log.append({"rule": "D32", "before": l.strip()[:80], "after": "let " + l.strip()[:76]})


def rule_D34(lines, log):
    """`recv.is_some_and(|x| body)` / `recv.is_ok_and(|x| body)` (closure-taking Option/Result adapters the verifier has no
    specification for) => `(match recv { Some(x) => body, None => false })` / `(match recv { Ok(x) => body, Err(_) => false })`
    — the std definition of the adapter, spelled out. Only simple receivers (a path / field / method chain on one line)."""
    pat = re.compile(r"((?:&\s*)?[A-Za-z_]\w*(?:\.[A-Za-z_]\w*(?:\(\))?)*)\.(is_some_and|is_ok_and)\(\s*\|(\w+)\|\s*")
    while True:
        t = lines.text()
        m = rustscan.mask(t)
        mm = pat.search(m)
        if not mm:
            break
        open_paren = m.index("(", mm.end(2))
        close = rustscan.match_close(m, open_paren)
        body = t[mm.end():close].strip()
        recv, which, var = t[mm.start(1):mm.end(1)], mm.group(2), mm.group(3)
        if which == "is_some_and":
            new = "(match %s { Some(%s) => { %s } None => false })" % (recv, var, body)
        else:
            new = "(match %s { Ok(%s) => { %s } Err(_) => false })" % (recv, var, body)
        log.append({"rule": "D34", "before": " ".join(t[mm.start():close + 1].split())[:160], "after": " ".join(new.split())[:160]})
        lines.replace_span(mm.start(), close + 1, new)


_ATTR_RE = re.compile(r"#\s*!?\s*\[")


def rule_D4(lines, log):
    """strip docs, attributes; keep only semantic derives"""
    # doc comments (whole-line and trailing)
    new = []
    for l, o in lines.pairs:
        s = l.lstrip()
        if s.startswith("///") or s.startswith("//!"):
            new.append(("", o))
        else:
            new.append((l, o))
    lines.pairs = new
    pos = 0
    while True:
        t = lines.text()
        m = rustscan.mask(t)
        mm = _ATTR_RE.search(m, pos)
        if not mm:
            break
        close = rustscan.match_close(m, mm.end() - 1)
        attr = t[mm.start() : close + 1]
        inner = t[mm.end() : close].strip()
        repl = ""
        if inner.startswith("derive"):
            names = [x.strip() for x in inner[inner.index("(") + 1 : inner.rindex(")")].split(",") if x.strip()]
            kept = [x for x in names if x.split("::")[-1] in KEEP_DERIVES]
            dropped = [x for x in names if x not in kept]
            if kept:
                repl = "#[derive(%s)]" % ", ".join(kept)
            if dropped:
                log.append({"rule": "D4", "before": " ".join(attr.split()), "after": repl})
        elif inner.startswith("verifier::") or inner.startswith("verus::"):
            pos = close + 1
            continue
        else:
            log.append({"rule": "D4", "before": " ".join(attr.split())[:120], "after": ""})
        nl = attr.count("\n")
        lines.replace_span(mm.start(), close + 1, repl + "\n" * nl)
        pos = mm.start() + len(repl)


def apply_sub(lines, rule, pattern, repl, log, where, count_required=1, flags=re.S):
    t = lines.text()
    ms = list(re.finditer(pattern, t, flags))
    if len(ms) < count_required:
        raise AssembleError("lost anchor: rule %s pattern /%s/ does not match in %s" % (rule, pattern, where))
    for mm in reversed(ms):
        after = mm.expand(repl)
        log.append({"rule": rule, "before": " ".join(mm.group(0).split())[:200], "after": " ".join(after.split())[:200]})
        lines.replace_span(mm.start(), mm.end(), after)


# ---------------------------------------------------------------------------- template parsing

_DIR = re.compile(r"^\s*//@\s?(.*)$")


class Block:
    def __init__(self, kind, arg, tpl_line):
        self.kind = kind
        self.arg = arg
        self.tpl_line = tpl_line
        self.sections = []  # (name, arg, [(text, tpl_line)])


def parse_template(path):
    """Return list of elements: ('text', line, lineno) | ('include', path) | Block"""
    elems = []
    cur = None
    sec = None
    with open(path, encoding="utf-8") as f:
        raw = f.read().split("\n")
    for n, line in enumerate(raw, 1):
        d = _DIR.match(line)
        if d:
            body = d.group(1).strip()
            word, _, rest = body.partition(" ")
            rest = rest.strip()
            if cur is None:
                if word == "include":
                    elems.append(("include", rest, n))
                elif word == "verus-arg":
                    elems.append(("verus-arg", rest, n))
                elif word == "item":
                    elems.append(Block("item", rest, n))
                elif word in ("fn", "range"):
                    cur = Block(word, rest, n)
                    sec = None
                elif word == "#" or word == "":
                    pass
                else:
                    raise AssembleError("%s:%d: unknown directive %r" % (path, n, word))
            else:
                if word == "end":
                    elems.append(cur)
                    cur = None
                    sec = None
                elif word in ("spec", "pre", "post", "loop", "afterloop", "after", "before", "header", "footer"):
                    sec = (word, rest, [])
                    cur.sections.append(sec)
                elif word in ("sub", "ret", "sigsub", "norule", "label", "attr"):
                    cur.sections.append((word, rest, []))
                    sec = None
                elif word == "#" or word == "":
                    pass
                else:
                    raise AssembleError("%s:%d: unknown sub-directive %r" % (path, n, word))
        else:
            if cur is not None:
                if sec is not None:
                    sec[2].append((line, n))
                elif line.strip():
                    raise AssembleError("%s:%d: text outside a section in a block" % (path, n))
            else:
                elems.append(("text", line, n))
    if cur is not None:
        raise AssembleError("%s: unterminated block starting line %d" % (path, cur.tpl_line))
    return elems


def _parse_sub(arg):
    # <rule> /regex/ => replacement      (regex may contain '/', delimiter is ' => ')
    mm = re.match(r"(\S+)\s+/(.*)/\s+=>\s?(.*)$", arg, re.S)
    if not mm:
        raise AssembleError("bad sub directive: %r" % arg)
    return mm.group(1), mm.group(2), mm.group(3).replace("\\n", "\n")


def _parse_re(arg):
    arg = arg.strip()
    mm = re.match(r"/(.*)/(\s+#\d+)?$", arg)
    if not mm:
        raise AssembleError("bad regex argument: %r" % arg)
    return mm.group(1), int(mm.group(2).strip()[1:]) if mm.group(2) else None


class Assembler:
    def __init__(self, repo, verif):
        self.repo = repo
        self.verif = verif
        self.sources = {}
        self.out = Lines()
        self.functions = []  # dicts describing functions under contract
        self.items = []
        self.rewrites = []
        self.fn_spans = []  # (first_out_line, last_out_line, label)
        self.spec_clauses = 0
        self.verus_args = []

    def src(self, rel):
        if rel not in self.sources:
            p = os.path.join(self.repo, rel)
            if not os.path.exists(p):
                raise AssembleError("lost anchor: file %s does not exist" % rel)
            try:
                self.sources[rel] = Source(p)
            except ScanError as e:
                raise AssembleError("cannot scan %s: %s" % (rel, e))
        return self.sources[rel]

    def locate(self, arg):
        parts = [x.strip() for x in arg.split("::")]
        # selectors may themselves contain '::' inside /regex/ — re-join pieces inside slashes
        sels = []
        buf = None
        for p in parts[1:]:
            if buf is not None:
                buf += "::" + p
                if p.endswith("/"):
                    sels.append(buf)
                    buf = None
            elif p.count("/") == 1:
                buf = p
            else:
                sels.append(p)
        if buf is not None:
            sels.append(buf)
        rel = parts[0]
        s = self.src(rel)
        try:
            it = s.find(sels)
        except ScanError as e:
            raise AssembleError("lost anchor: %s" % e)
        return rel, s, it

    def process(self, tpl_path):
        self._process(tpl_path)
        self._auto_consts(tpl_path)
        return self.out

    def _auto_consts(self, tpl_path):
        """Rule D31: a top-level `const NAME: <scalar or &str> = <literal>;` of a source file, referenced by a function
        extracted from that file and not defined anywhere in the assembled text, is extracted with it (verbatim)."""
        text = "\n".join(l for l, _ in self.out.pairs)
        defined = set(re.findall(r"\b(?:const|static)\s+([A-Z][A-Z0-9_]+)\b", text))
        want = {}
        for l, o in self.out.pairs:
            if o[0] != "src":
                continue
            for name in re.findall(r"(?<![A-Za-z0-9_:.])([A-Z][A-Z0-9_]{2,})\b(?!\s*[:(!{])", rustscan.mask(l)):
                if name not in defined:
                    want.setdefault(name, o[1])
        add = []
        for name, rel in sorted(want.items()):
            try:
                s = self.src(rel)
                it = s.find(["const " + name])
            except (ScanError, AssembleError):
                continue
            item = s.slice(it.start, it.end)
            if not re.search(r":\s*(usize|u8|u16|u32|u64|u128|isize|i8|i16|i32|i64|bool|char|&(?:'static\s+)?str)\s*=", item):
                continue
            lines = Lines.from_source(item, rel, s.line(it.start))
            log = []
            rule_D4(lines, log)
            t = lines.text()
            for mm in reversed(list(re.finditer(r"&(?!\s*')", t.split("=")[0]))):
                lines.replace_span(mm.start(), mm.end(), "&'static ")
            log.append({"rule": "D31", "before": "(const %s referenced by an extracted function)" % name, "after": " ".join(item.split())[:120]})
            self._log(log, rel, it)
            self.items.append({"item": it.header[:80], "file": rel, "lines": [s.line(it.start), s.line(it.end)], "sha256_16": sha(item)})
            add.extend(lines.pairs)
        if add:
            for k in range(len(self.out.pairs) - 1, -1, -1):
                if self.out.pairs[k][0].strip().startswith("} // verus!"):
                    self.out.pairs[k:k] = add
                    break

    def _tpl(self, text, path, n, label=None):
        return (text, ("tpl", os.path.relpath(path, self.verif), n, label))

    def _process(self, tpl_path):
        for el in parse_template(tpl_path):
            if isinstance(el, tuple) and el[0] == "text":
                self.out.pairs.append(self._tpl(el[1], tpl_path, el[2]))
            elif isinstance(el, tuple) and el[0] == "include":
                self._process(os.path.join(self.verif, el[1]))
            elif isinstance(el, tuple) and el[0] == "verus-arg":
                self.verus_args.append(el[1])
            elif el.kind == "item":
                self._item(el, tpl_path)
            elif el.kind == "fn":
                self._fn(el, tpl_path)
            elif el.kind == "range":
                self._range(el, tpl_path)

    # -- plain definition
    def _item(self, blk, tpl_path):
        arg, _, extra_attr = blk.arg.partition(" ## ")
        rel, s, it = self.locate(arg)
        text = s.slice(it.start, it.end)
        lines = Lines.from_source(text, rel, s.line(it.start))
        log = []
        rule_D4(lines, log)
        if it.kind in ("const", "static"):
            # D10: the elided lifetime of a const's reference type is 'static; Verus wants it spelled out
            t = lines.text()
            for mm in reversed(list(re.finditer(r"&(?!\s*')", t.split("=")[0]))):
                log.append({"rule": "D10", "before": "&", "after": "&'static "})
                lines.replace_span(mm.start(), mm.end(), "&'static ")
        # D4b: derived impls are external to Verus; their (structural) contracts are assumed explicitly in the prelude
        for k, (l, o) in enumerate(lines.pairs):
            if l.lstrip().startswith("#[derive("):
                lines.pairs.insert(k + 1, ("#[verifier::external_derive]", o))
                break
        if "+pubfields" in extra_attr:
            # the struct's private fields are widened to `pub` for the verifier's visibility rules only (rule D4c; no effect on behaviour)
            extra_attr = extra_attr.replace("+pubfields", "").strip()
            for k, (l, o) in enumerate(lines.pairs):
                mm = re.match(r"(\s+)(?!pub\b)([a-z_][A-Za-z0-9_]*\s*:)", l)
                if mm and o[0] == "src":
                    lines.pairs[k] = (l[: mm.end(1)] + "pub " + l[mm.end(1):], o)
                    continue
                mm = re.match(r"(\s+)pub\((?:crate|super)\)\s+([a-z_][A-Za-z0-9_]*\s*:)", l)
                if mm and o[0] == "src":
                    lines.pairs[k] = (mm.group(1) + "pub " + l[mm.start(2):], o)
                    continue
                # one-field tuple struct `struct Name(Type);`
                mm = re.match(r"(\s*(?:pub(?:\([a-z]+\))?\s+)?struct\s+\w+(?:<[^>]*>)?\()(?!pub\b)([^,()]+\);)\s*$", l)
                if mm and o[0] == "src":
                    lines.pairs[k] = (mm.group(1) + "pub " + mm.group(2), o)
            log.append({"rule": "D4c", "before": "(private fields)", "after": "pub fields"})
        if "+pub" in extra_attr:
            # visibility widened for the verifier's module rules only (rule D4c; no effect on behaviour)
            extra_attr = extra_attr.replace("+pub", "").strip()
            for k, (l, o) in enumerate(lines.pairs):
                mm = re.match(r"(\s*)(enum|struct|type|const|fn)\b", l)
                if mm:
                    lines.pairs[k] = (l[: mm.end(1)] + "pub " + l[mm.end(1):], o)
                    log.append({"rule": "D4c", "before": l.strip()[:40], "after": "pub " + l.strip()[:40]})
                    break
        if extra_attr.strip():
            # verifier-only attribute requested by the template (no effect on the running code)
            lines.pairs.insert(0, (extra_attr.strip(), ("tpl", os.path.relpath(tpl_path, self.verif), blk.tpl_line, "attr")))
        self._log(log, rel, it)
        self.items.append({"item": it.header[:80], "file": rel, "lines": [s.line(it.start), s.line(it.end)], "sha256_16": sha(text)})
        self.out.pairs.extend(lines.pairs)

    def _log(self, log, rel, it):
        for e in log:
            e["file"] = rel
            e["in"] = it.header[:60]
            self.rewrites.append(e)

    # -- function with contract
    def _fn(self, blk, tpl_path):
        rel, s, it = self.locate(blk.arg)
        if it.kind != "fn" or it.body_open is None:
            raise AssembleError("lost anchor: %s is not a fn with a body" % blk.arg)
        sig = s.slice(it.start, it.body_open)
        body = s.slice(it.body_open, it.end)
        sig_lines = Lines.from_source(sig, rel, s.line(it.start))
        body_lines = Lines.from_source(body, rel, s.line(it.body_open))
        label = blk.arg.split("::", 1)[1].strip() if "::" in blk.arg else blk.arg
        label = re.sub(r"\s+", " ", label)
        self._emit_fn(blk, tpl_path, rel, s, it, sig_lines, body_lines, label, raw=sig + body)

    def _emit_fn(self, blk, tpl_path, rel, s, it, sig_lines, body_lines, label, raw, header=None, footer=None):
        log = []
        norules = {a for (w, a, _) in blk.sections if w == "norule"}
        rule_D4(sig_lines, log)
        rule_D4(body_lines, log)
        if "D1" not in norules:
            rule_D1(body_lines, log)
        if "D3" not in norules:
            rule_D3(body_lines, log)
        if "D32" not in norules:
            rule_D32(body_lines, log)
        if "D34" not in norules:
            rule_D34(body_lines, log)
        if "D33" not in norules and header is None and re.search(r"\(\s*mut self\b", sig_lines.text()) \
                and not any(w in ("sub", "sigsub") and "mut self" in a.replace("\\", "") for (w, a, c) in blk.sections):
            # D33: a by-value `mut self` receiver (the verifier does not take it) => `self` moved into a mutable local
            # `this` at the top of the body; every `self` in the body then reads `this`
            t = sig_lines.text()
            mm = re.search(r"\(\s*mut self\b", t)
            sig_lines.replace_span(mm.start(), mm.end(), mm.group(0).replace("mut self", "self"))
            for k, (l, o) in enumerate(body_lines.pairs):
                if o[0] == "src":
                    body_lines.pairs[k] = (re.sub(r"(?<![A-Za-z0-9_])self(?![A-Za-z0-9_])", "this", l), o)
            l0, o0 = body_lines.pairs[0]
            body_lines.pairs[0] = (l0.replace("{", "{ let mut this = self;", 1), o0)
            log.append({"rule": "D33", "before": "mut self", "after": "self; let mut this = self; (self => this in the body)"})
        ret = None
        for w, a, content in blk.sections:
            if w == "label":
                label = a
        for w, a, content in blk.sections:
            if w == "sub":
                # a rewrite of a construct the verifier cannot take: if the construct is not there (any more) there is
                # nothing to rewrite — the body is verified as it stands (an unsupported construct then makes the unit undecided)
                rule, pat, repl = _parse_sub(a)
                apply_sub(body_lines, rule, pat, repl, log, label, count_required=0)
            elif w == "sigsub":
                rule, pat, repl = _parse_sub(a)
                apply_sub(sig_lines, rule, pat, repl, log, label)
            elif w == "ret":
                ret = a
        spec = [c for (w, a, c) in blk.sections if w == "spec"]
        spec = [x for c in spec for x in c]
        if ret is None and spec:
            ret = "r"
        if ret and header is None:
            # name the return value:  `-> T`  =>  `-> (r: T)`   (rule D9)
            t = sig_lines.text()
            m = rustscan.mask(t)
            k = _find_arrow(m)
            if k is not None:
                # return type extends to 'where' at depth 0 or end of signature
                w = _find_where(m, k)
                end = w if w is not None else len(t.rstrip())
                ty = t[k + 2 : end].strip()
                sig_lines.replace_span(k, end, "-> (%s: %s)%s" % (ret, ty, " " if w is not None else ""))
                log.append({"rule": "D9", "before": "-> " + ty[:60], "after": "-> (%s: %s)" % (ret, ty[:60])})
        # --- insertions into body, processed on the line list
        # loops
        for w, a, content in blk.sections:
            if w == "loop":
                idx = int(a.split()[0])
                t = body_lines.text()
                m = rustscan.mask(t)
                kws = [x for x in re.finditer(r"(?<![A-Za-z0-9_'])(while|for|loop)\b", m)]
                kws = [x for x in kws if not _is_for_in_type(m, x)]
                if idx >= len(kws):
                    raise AssembleError("lost anchor: loop %d not found in %s" % (idx, label))
                j = kws[idx].end()
                while m[j] != "{":
                    if m[j] in "([":
                        j = rustscan.match_close(m, j)
                    j += 1
                ins = "\n" + "\n".join(x for x, _ in content) + "\n"
                li = body_lines._line_index_of_offset([j])[0]
                # split the line at j
                line, org = body_lines.pairs[li]
                ls = sum(len(l) + 1 for l, _ in body_lines.pairs[:li])
                pre_txt, post_txt = line[: j - ls], line[j - ls :]
                newp = [(pre_txt, org)] + [self._tpl(x, tpl_path, n, "loop%d" % idx) for x, n in content] + [(post_txt, org)]
                body_lines.pairs[li : li + 1] = newp
                self.spec_clauses += _count_clauses(content)
        for w, a, content in blk.sections:
            if w == "afterloop":
                idx = int(a.split()[0])
                t = body_lines.text()
                m = rustscan.mask(t)
                kws = [x for x in re.finditer(r"(?<![A-Za-z0-9_'])(while|for|loop)\b", m)]
                kws = [x for x in kws if not _is_for_in_type(m, x)]
                if idx >= len(kws):
                    raise AssembleError("lost anchor: loop %d not found in %s" % (idx, label))
                j = kws[idx].end()
                while m[j] != "{" or _in_invariant(m, kws[idx].end(), j):
                    if m[j] in "([":
                        j = rustscan.match_close(m, j)
                    j += 1
                close = rustscan.match_close(m, j)
                li = body_lines._line_index_of_offset([close])[0]
                ins = [self._tpl(x, tpl_path, n, "afterloop%d" % idx) for x, n in content]
                body_lines.insert_lines(li + 1, ins)
        for w, a, content in blk.sections:
            if w in ("after", "before"):
                each = a.strip().startswith("each ")
                pat, nth = _parse_re(a.strip()[5:] if each else a)
                hits = [i for i, (l, o) in enumerate(body_lines.pairs) if o[0] == "src" and re.search(pat, l)]
                ins = [self._tpl(x, tpl_path, n, w) for x, n in content]
                if each:
                    # `before each /re/`: an assertion attached to EVERY occurrence of a statement (e.g. every early return);
                    # where the code has no such statement there is nothing to attach it to
                    for i in reversed(hits):
                        body_lines.insert_lines(i + 1 if w == "after" else i, list(ins))
                    continue
                if not hits or (nth is None and len(hits) != 1) or (nth is not None and nth >= len(hits)):
                    raise AssembleError("lost anchor: %s /%s/ matched %d lines in %s" % (w, pat, len(hits), label))
                i = hits[nth or 0]
                body_lines.insert_lines(i + 1 if w == "after" else i, ins)
        pre = [x for (w, a, c) in blk.sections if w == "pre" for x in c]
        post = [x for (w, a, c) in blk.sections if w == "post" for x in c]
        # --- emit
        first = len(self.out.pairs) + 1
        if header is not None:
            for w, a, c in blk.sections:
                if w == "attr":
                    self.out.pairs.append((a, ("tpl", os.path.relpath(tpl_path, self.verif), blk.tpl_line, "attr")))
            for x, n in header:
                self.out.pairs.append(self._tpl(x, tpl_path, n, "header"))
        else:
            for w, a, c in blk.sections:
                if w == "attr":
                    # verifier-only attribute (no effect on the running code)
                    self.out.pairs.append((a, ("tpl", os.path.relpath(tpl_path, self.verif), blk.tpl_line, "attr")))
            self.out.pairs.extend(sig_lines.pairs)
        for x, n in spec:
            self.out.pairs.append(self._tpl(x, tpl_path, n, "spec"))
        self.spec_clauses += _count_clauses(spec)
        bp = body_lines.pairs
        if header is None:
            # body starts with '{'
            l0, o0 = bp[0]
            assert l0.lstrip().startswith("{"), l0
            self.out.pairs.append(("{", o0))
            for x, n in pre:
                self.out.pairs.append(self._tpl(x, tpl_path, n, "pre"))
            rest0 = l0.lstrip()[1:]
            if rest0.strip():
                self.out.pairs.append((rest0, o0))
            if post:
                # insert before the final closing brace
                last, ol = bp[-1]
                assert last.rstrip().endswith("}"), last
                self.out.pairs.extend(bp[1:-1])
                self.out.pairs.append((last.rstrip()[:-1], ol))
                for x, n in post:
                    self.out.pairs.append(self._tpl(x, tpl_path, n, "post"))
                self.out.pairs.append(("}", ol))
            else:
                self.out.pairs.extend(bp[1:])
        else:
            self.out.pairs.append(("{", ("tpl", os.path.relpath(tpl_path, self.verif), blk.tpl_line, "header")))
            for x, n in pre:
                self.out.pairs.append(self._tpl(x, tpl_path, n, "pre"))
            self.out.pairs.extend(bp)
            for x, n in (footer or []):
                self.out.pairs.append(self._tpl(x, tpl_path, n, "footer"))
            self.out.pairs.append(("}", ("tpl", os.path.relpath(tpl_path, self.verif), blk.tpl_line, "footer")))
        last = len(self.out.pairs)
        self.fn_spans.append((first, last, label))
        self._log(log, rel, it)
        srcl = [o[2] for _, o in sig_lines.pairs + body_lines.pairs if o[0] == "src"]
        self.functions.append(
            {
                "fn": label,
                "file": rel,
                "lines": [min(srcl), max(srcl)] if srcl else None,
                "sha256_16": sha(raw),
                "kind": "item" if header is None else "statement-range",
                "rules": sorted({e["rule"] for e in log}),
                "contract_clauses": _count_clauses(spec),
                "has_contract": bool(spec),
            }
        )

    # -- statement range
    def _range(self, blk, tpl_path):
        excl = re.search(r"\s+from\s+after\s+(?:first\s+)?/", blk.arg) is not None   # `from after /re/`: the range starts on the NEXT line
        first = re.search(r"\s+from\s+(?:after\s+)?first\s+/", blk.arg) is not None   # `from [after] first /re/`: the FIRST matching line
        mm = re.match(r"(.*?)\s+from\s+(?:after\s+)?(?:first\s+)?/(.*?)/\s+to\s+/(.*?)/\s*(inclusive)?\s*$", blk.arg)
        if not mm:
            raise AssembleError("bad range directive: %r" % blk.arg)
        rel, s, it = self.locate(mm.group(1))
        if it.body_open is None:
            raise AssembleError("lost anchor: %s has no body" % mm.group(1))
        body = s.slice(it.body_open, it.end)
        first_line = s.line(it.body_open)
        blines = body.split("\n")
        a_hits = [i for i, l in enumerate(blines) if re.search(mm.group(2), l)]
        if first and a_hits:
            a_hits = a_hits[:1]
        if len(a_hits) != 1:
            raise AssembleError("lost anchor: range start /%s/ matched %d lines in %s" % (mm.group(2), len(a_hits), mm.group(1)))
        a = a_hits[0] + (1 if excl else 0)
        b_hits = [i for i, l in enumerate(blines) if i >= a and re.search(mm.group(3), l)]
        if not b_hits:
            raise AssembleError("lost anchor: range end /%s/ not found after start in %s" % (mm.group(3), mm.group(1)))
        b = b_hits[0] + (1 if mm.group(4) else 0)
        chunk = "\n".join(blines[a:b])
        # the chunk must be bracket-balanced, otherwise the anchors cut through a block
        try:
            mk = rustscan.mask(chunk)
            depth = 0
            for c in mk:
                if c in "([{":
                    depth += 1
                elif c in ")]}":
                    depth -= 1
                    if depth < 0:
                        raise ScanError("unbalanced")
            if depth != 0:
                raise ScanError("unbalanced")
        except ScanError:
            raise AssembleError("lost anchor: statement range in %s is not bracket-balanced" % mm.group(1))
        body_lines = Lines.from_source(chunk, rel, first_line + a)
        header = [x for (w, a_, c) in blk.sections if w == "header" for x in c]
        footer = [x for (w, a_, c) in blk.sections if w == "footer" for x in c]
        label = re.sub(r"\s+", " ", mm.group(1).split("::", 1)[1].strip()) + " [range]"
        self._emit_fn(blk, tpl_path, rel, s, it, Lines(), body_lines, label, raw=chunk, header=header, footer=footer)


def _in_invariant(m, start, j):
    """the '{' at j belongs to a spliced invariant block (e.g. `({ let st = …; … })`) rather than the loop body:
    true when an `invariant`/`decreases` keyword occurs between the loop header and j and the brace is inside parentheses"""
    return False


def _find_arrow(m):
    depth = 0
    i = 0
    last = None
    while i < len(m) - 1:
        c = m[i]
        if c in "([":
            i = rustscan.match_close(m, i) + 1
            continue
        if c == "<":
            depth += 1
        elif c == ">" and m[i - 1] != "-":
            depth -= 1
        elif c == "-" and m[i + 1] == ">" and depth <= 0:
            last = i
            return last
        i += 1
    return last


def _find_where(m, start):
    for mm in re.finditer(r"(?<![A-Za-z0-9_])where\b", m[start:]):
        return start + mm.start()
    return None


def _is_for_in_type(m, mo):
    # `for<'a>` higher-ranked bounds or `impl X for Y`
    if mo.group(1) != "for":
        return False
    rest = m[mo.end() : mo.end() + 3].lstrip()
    if rest.startswith("<"):
        return True
    # `impl .. for ..` : previous non-space token is an identifier/`>` and an `impl` precedes on the statement
    before = m[max(0, mo.start() - 200) : mo.start()]
    stmt = re.split(r"[;{}]", before)[-1]
    return re.search(r"(?<![A-Za-z0-9_])impl\b", stmt) is not None


def _count_clauses(content):
    """number of top-level comma-separated clauses in spec text (requires/ensures/invariant/decreases)"""
    t = "\n".join(x for x, _ in content)
    t = re.sub(r"//.*", "", t)
    if not t.strip():
        return 0
    m = rustscan.mask(t)
    depth = 0
    n = 0
    cur = False
    for i, c in enumerate(m):
        if c in "([{":
            depth += 1
        elif c in ")]}":
            depth -= 1
        if c == "," and depth == 0:
            if cur:
                n += 1
            cur = False
        elif not c.isspace():
            cur = True
    if cur:
        n += 1
    return n
