"""Brace/string/comment/lifetime-aware scanner for Rust source text.

Used to locate items (fn / impl / struct / enum / type / const / mod / trait) in /repo's
current working tree and to cut them out *verbatim*.  Nothing here interprets Rust beyond
lexical structure: comments, string/char/byte/raw-string literals, lifetimes and bracket
nesting.  All offsets are character offsets into the file text.
"""
import re

ITEM_KW = ("fn", "impl", "struct", "enum", "type", "const", "static", "mod", "trait", "use", "macro_rules")


class ScanError(Exception):
    pass


def mask(text):
    """Return a copy of `text` in which the *contents* of comments, string literals and
    char literals are replaced by spaces (newlines kept), so that bracket matching and
    keyword search can run on it with plain string operations.  Length is preserved."""
    out = list(text)
    n = len(text)
    i = 0

    def blank(a, b):
        for k in range(a, b):
            if out[k] != "\n":
                out[k] = " "

    while i < n:
        c = text[i]
        if c == "/" and i + 1 < n and text[i + 1] == "/":
            j = text.find("\n", i)
            if j < 0:
                j = n
            blank(i, j)
            i = j
        elif c == "/" and i + 1 < n and text[i + 1] == "*":
            depth = 1
            j = i + 2
            while j < n and depth:
                if text.startswith("/*", j):
                    depth += 1
                    j += 2
                elif text.startswith("*/", j):
                    depth -= 1
                    j += 2
                else:
                    j += 1
            blank(i, j)
            i = j
        elif c == '"' or (c in "br" and _is_str_prefix(text, i)):
            j = _skip_string(text, i)
            # keep the delimiters' positions blank as well: nothing inside matters
            blank(i, j)
            out[i] = '"'
            out[j - 1] = '"'
            i = j
        elif c == "'":
            j = _skip_char_or_lifetime(text, i)
            if j is not None:
                blank(i, j)
                out[i] = "'"
                out[j - 1] = "'"
                i = j
            else:
                i += 1  # lifetime: leave as is
        else:
            i += 1
    return "".join(out)


def _is_str_prefix(text, i):
    # b"..", r"..", r#".."#, br".."  (must not be part of an identifier)
    if i > 0 and (text[i - 1].isalnum() or text[i - 1] == "_"):
        return False
    m = re.match(r'(b?r#*"|b")', text[i : i + 12])
    return m is not None


def _skip_string(text, i):
    n = len(text)
    m = re.match(r'(b?r(#*)")', text[i : i + 40])
    if m:
        hashes = m.group(2)
        end = '"' + hashes
        j = text.find(end, i + len(m.group(1)))
        if j < 0:
            raise ScanError("unterminated raw string")
        return j + len(end)
    if text[i] == "b":
        i += 1
    j = i + 1
    while j < n:
        if text[j] == "\\":
            j += 2
        elif text[j] == '"':
            return j + 1
        else:
            j += 1
    raise ScanError("unterminated string")


def _skip_char_or_lifetime(text, i):
    """text[i] == "'" -- return end offset if this is a char literal, None if a lifetime."""
    n = len(text)
    if i + 1 >= n:
        return None
    if text[i + 1] == "\\":
        j = text.find("'", i + 3 if text[i + 2] == "'" else i + 2)
        return j + 1 if j >= 0 else None
    # 'x' is a char literal, 'x (no closing quote right after one char) is a lifetime
    if i + 2 < n and text[i + 2] == "'":
        return i + 3
    return None


OPEN = {"(": ")", "[": "]", "{": "}"}
CLOSE = {")": "(", "]": "[", "}": "{"}


def match_close(m, i):
    """m = masked text, m[i] is an opening bracket; return offset of its partner."""
    stack = []
    n = len(m)
    j = i
    while j < n:
        c = m[j]
        if c in OPEN:
            stack.append(c)
        elif c in CLOSE:
            if not stack or stack[-1] != CLOSE[c]:
                raise ScanError("bracket mismatch at %d" % j)
            stack.pop()
            if not stack:
                return j
        j += 1
    raise ScanError("unclosed bracket at %d" % i)


def line_of(text, off):
    return text.count("\n", 0, off) + 1


class Item:
    def __init__(self, kind, name, header, start, hdr_start, body_open, end):
        self.kind = kind  # fn / impl / struct / ...
        self.name = name  # identifier (fn, struct, ...) or normalised impl header
        self.header = header  # normalised text from keyword to body/; (whitespace collapsed)
        self.start = start  # offset of first attribute/doc line (or hdr_start)
        self.hdr_start = hdr_start  # offset of visibility/keyword
        self.body_open = body_open  # offset of '{' or None
        self.end = end  # offset one past closing '}' or ';'

    def __repr__(self):
        return "Item(%s %s)" % (self.kind, self.name)


_KW_RE = re.compile(
    r"(?<![A-Za-z0-9_])(?:(?:pub(?:\s*\([^)]*\))?|default|unsafe|async|const|extern(?:\s*\"[^\"]*\")?)\s+)*"
    r"(fn|impl|struct|enum|type|const|static|mod|trait|union)\b"
)


def items_in(text, m, lo, hi):
    """Items whose keyword sits at bracket depth 0 of the region text[lo:hi]."""
    items = []
    i = lo
    depth_pos = i
    while i < hi:
        c = m[i]
        if c in OPEN:
            i = match_close(m, i) + 1
            continue
        if c == "#" and i + 1 < hi and (m[i + 1] == "[" or m[i + 1 : i + 3] == "!["):
            # attribute: skip it, the item start is found by walking back later
            j = m.find("[", i)
            i = match_close(m, j) + 1
            continue
        mm = _KW_RE.match(m, i)
        if mm and (i == lo or not (m[i - 1].isalnum() or m[i - 1] == "_")):
            kind = mm.group(1)
            kw_end = mm.end(1)
            # `const` used as qualifier of fn is handled by the regex prefix; a bare
            # `const NAME` item: kind == const
            # find end of item: first '{' or ';' at depth 0 (parens/brackets skipped)
            j = kw_end
            body_open = None
            while j < hi:
                cj = m[j]
                if cj in "([":
                    j = match_close(m, j) + 1
                    continue
                if cj == "{":
                    body_open = j
                    break
                if cj == ";":
                    break
                if cj == "=" and kind in ("const", "static", "type"):
                    # initializer may contain braces: skip to ';' at depth 0
                    k = j
                    while k < hi and m[k] != ";":
                        if m[k] in OPEN:
                            k = match_close(m, k)
                        k += 1
                    j = k
                    break
                j += 1
            if body_open is not None:
                end = match_close(m, body_open) + 1
                if kind == "struct":
                    pass
            else:
                end = j + 1
            header = " ".join(text[mm.start(1) : (body_open if body_open is not None else j)].split())
            name = _item_name(kind, header)
            start = _attr_start(text, m, i, lo)
            items.append(Item(kind, name, header, start, i, body_open, end))
            i = end
            continue
        i += 1
    return items


def _item_name(kind, header):
    rest = header[len(kind) :].strip()
    if kind == "impl":
        return rest
    mm = re.match(r"([A-Za-z_][A-Za-z0-9_]*)", rest)
    return mm.group(1) if mm else rest


def _attr_start(text, m, i, lo):
    """Walk back from offset i over preceding attribute / doc-comment / blank-free lines."""
    # start of the line containing i
    ls = text.rfind("\n", lo, i) + 1
    if ls < lo:
        ls = lo
    # only treat as line start if everything before i on that line is whitespace
    if text[ls:i].strip():
        return i
    start = ls
    while start > lo:
        pe = start - 1  # the '\n' ending the previous line
        ps = text.rfind("\n", lo, pe) + 1
        if ps < lo:
            ps = lo
        line = text[ps:pe].strip()
        if line.startswith("#[") or line.startswith("///") or line.startswith("#!["):
            start = ps
        elif line.startswith("//") and not line.startswith("//!"):
            # ordinary comment directly above an attribute block: keep walking only if
            # a doc/attr line is above it (conservative: stop)
            break
        else:
            break
    return start


class Source:
    def __init__(self, path):
        self.path = path
        with open(path, encoding="utf-8") as f:
            self.text = f.read()
        self.m = mask(self.text)

    def top_items(self):
        return items_in(self.text, self.m, 0, len(self.text))

    def children(self, item):
        if item.body_open is None:
            return []
        return items_in(self.text, self.m, item.body_open + 1, item.end - 1)

    def find(self, path):
        """path: list of selectors 'kind name' or 'kind /regex/'.  Returns Item.
        Nested items inside fn bodies are found too (scope = the body braces)."""
        scope = self.top_items()
        item = None
        for sel in path:
            km = re.match(r"[a-z_]+", sel.strip())
            kind = km.group(0)
            pat = sel.strip()[km.end():].strip()
            cands = [it for it in scope if it.kind == kind and _sel_match(it, pat)]
            # items compiled only for tests or only under the verification hook are not the running code
            cands = [it for it in cands if not re.search(r"cfg\s*\(\s*(test|jsonrpsee_verif)\s*\)", self.text[it.start : it.hdr_start])]
            if len(cands) != 1:
                raise ScanError(
                    "%s: selector %r matched %d items (%s)"
                    % (self.path, sel, len(cands), ", ".join(i.header[:60] for i in cands))
                )
            item = cands[0]
            scope = self.children(item)
        return item

    def slice(self, a, b):
        return self.text[a:b]

    def line(self, off):
        return line_of(self.text, off)


def _sel_match(it, pat):
    if pat.startswith("/") and pat.endswith("/"):
        return re.search(pat[1:-1], it.header) is not None
    if it.kind == "impl":
        return "".join(it.name.split()) == "".join(pat.split())
    return it.name == pat


def find_macro_calls(m, names, lo=0, hi=None):
    """Yield (start, end) of invocations `name!( … )` / `name![ … ]` / `name!{ … }` in masked text."""
    hi = len(m) if hi is None else hi
    pat = re.compile(r"(?<![A-Za-z0-9_])(?:%s)\s*!\s*([(\[{])" % "|".join(re.escape(x) for x in names))
    pos = lo
    res = []
    while True:
        mm = pat.search(m, pos, hi)
        if not mm:
            break
        close = match_close(m, mm.start(1))
        res.append((mm.start(), close + 1))
        pos = close + 1
    return res
