"""Replay of a failed obligation against the real code (probes in /verif/replay, built from /repo)."""
import json
import os
import re
import subprocess
import time


def build_probes(verif, repo):
    rdir = os.path.join(verif, "replay")
    lock = os.path.join(repo, "Cargo.lock")
    env = dict(os.environ, CARGO_NET_OFFLINE="true", CARGO_TARGET_DIR=os.path.join(rdir, "target"), RUSTFLAGS="--cfg jsonrpsee_verif")
    if os.path.exists(lock) and not os.path.exists(os.path.join(rdir, "Cargo.lock")):
        import shutil
        shutil.copy(lock, os.path.join(rdir, "Cargo.lock"))
    p = subprocess.run(["cargo", "build", "--release", "--offline", "--bins"], cwd=rdir, env=env, capture_output=True, text=True, timeout=1800)
    return p.returncode == 0, (p.stdout + p.stderr)[-2000:]


def _run_probe_once(verif, name, timeout=120):
    exe = os.path.join(verif, "replay", "target", "release", "probe")
    try:
        p = subprocess.run([exe, name], capture_output=True, text=True, timeout=timeout)
    except subprocess.TimeoutExpired:
        return {"probe": name, "error": "timeout", "disagrees": True, "input": "(probe hung: %ds)" % timeout}
    except FileNotFoundError:
        return {"probe": name, "error": "probe binary not built"}
    res = None
    for line in p.stdout.split("\n"):
        line = line.strip()
        if line.startswith("{"):
            try:
                res = json.loads(line)
            except Exception:
                pass
    if res is None:
        # a panic of the real code inside the probe is itself an observation
        res = {"probe": name, "error": "no result", "stderr": p.stderr[-1500:], "rc": p.returncode}
        if "panicked at" in p.stderr:
            res["disagrees"] = True
            res["input"] = "(see stderr: the real code panicked)"
    return res


def run_probe(verif, name, timeout=120):
    """A probe that reports a failing input is run twice more: the report stands only if every run reports a failing
    input (several probes drive real tasks and timers; a machine under load must not turn a slow run into an alarm).
    A hang counts as a failing observation only if it repeats."""
    res = _run_probe_once(verif, name, timeout)
    if not res.get("disagrees"):
        return res
    again = [_run_probe_once(verif, name, timeout) for _ in range(2)]
    if all(r.get("disagrees") for r in again):
        res["confirmed_runs"] = 3
        return res
    ok = [r for r in again if not r.get("disagrees")][0]
    ok["flaky_disagreement_discarded"] = {k: res.get(k) for k in ("input", "observed", "expected", "error")}
    return ok


def replay_violation(verif, repo, pid, cfg, ob, results):
    name = re.sub(r"[^A-Za-z0-9_.-]+", "_", ob["id"])[:150]
    path = os.path.join(verif, "replays", "%s-%s.json" % (pid, name))
    rec = {"property": pid, "obligation": ob["id"], "kind": ob["kind"], "function": ob.get("fn"), "where": ob.get("primary"),
           "related": ob.get("secondary"), "verifier_output": ob.get("rendered", ""), "time": time.strftime("%Y-%m-%dT%H:%M:%S")}
    found = False
    probes_run = []
    if ob.get("counterexample"):
        rec["kani_counterexample"] = ob["counterexample"]
    if ob.get("probe_result"):
        probes_run.append(ob["probe_result"])
        found = bool(ob["probe_result"].get("disagrees"))
    probes = []
    rmap = cfg.get("replay", {})
    for key, plist in rmap.items():
        if key == ob["unit"] or key in ob["id"]:
            for p in plist:
                if p not in probes:
                    probes.append(p)
    if probes and not ob.get("probe_result"):
        ok, log = build_probes(verif, repo)
        if not ok:
            rec["probe_build_error"] = log
        else:
            for p in probes:
                r = run_probe(verif, p)
                probes_run.append(r)
                if r.get("disagrees"):
                    found = True
    rec["probes"] = probes_run
    rec["failing_input_found"] = found
    if found:
        first = [r for r in probes_run if r.get("disagrees")][0]
        rec["failing_input"] = first.get("input")
        rec["observed"] = first.get("observed")
        rec["expected"] = first.get("expected")
    with open(path, "w") as f:
        json.dump(rec, f, indent=1)
    return {"path": path, "failing_input_found": found}


def show(path):
    rec = json.load(open(path))
    print(json.dumps(rec, indent=1))
    return 0
