#!/usr/bin/env python3
"""Regenerates MANIFEST.json from props/*.json (claimed) and props/not_applicable.json."""
import json, os, glob
V = os.path.dirname(os.path.abspath(__file__))
props = [json.loads(l) for l in open(os.path.join(V, "properties.jsonl"))]
na = json.load(open(os.path.join(V, "props", "not_applicable.json")))
checks = []
for p in props:
    pid = p["id"]
    f = os.path.join(V, "props", pid + ".json")
    if not os.path.exists(f) or pid in na:
        continue
    c = json.load(open(f))
    checks.append({
        "property_id": pid,
        "quick_cmd": "./vcheck %s --tier quick" % pid,
        "thorough_cmd": "./vcheck %s --tier thorough" % pid,
        "evidence_file": "/verif/evidence/%s.json" % pid,
        "replay_cmd_template": "./vcheck %s --replay {path}" % pid,
        "engine": "vcheck",
        "level_claimed": {"category": "proof", "text": c["claim"], "design_ref": c.get("design_ref", "DESIGN.md §5 " + pid)},
        "level_note": c.get("level_note", "") or ("Not decided: " + "; ".join(c.get("not_decided", []))),
        "technique": c.get("technique", "contract-based deductive verification (Verus) of functions extracted mechanically from /repo on every run"),
    })
m = {
    "version": 1,
    "setup_cmd": "./setup.sh",
    "hooks": {"guard": "jsonrpsee_verif", "enable": "RUSTFLAGS='--cfg jsonrpsee_verif' when building /verif/replay (setup.sh and vlib/replay.py do it): the only hook is Client::verif_table_sizes / RequestManager::verif_sizes, read by the C18 replay probes. Verus units read source text and skip cfg(jsonrpsee_verif) items; Kani harnesses use the public API.",
              "baseline_off_cmd": "cd /repo && cargo nextest run --workspace --no-fail-fast --test-threads 8 --offline || cargo test --workspace --no-fail-fast --offline",
              "source_commits": ["3206f2c7161f27eb6e3e770a93b164bd91dc6d8c", "4fc893b7643a163f2b36bea614ff2b9bef590f40"], "add_only": True},
    "engines": [{"name": "vcheck", "path": "/verif/vcheck", "serves_properties": [c["property_id"] for c in checks],
                 "kind_free_text": "extract real functions from /repo -> splice contracts (units/*.vt) -> Verus (Z3) per unit -> named obligations -> replay probes on the real crates; Kani/CBMC harnesses on the real crates for loop-free integer code"}],
    "checks": checks,
    "not_applicable": [{"property_id": k, "reason": v} for k, v in na.items()],
    "notes": "Every check rebuilds its Verus input from /repo's current working tree. exit 0 ok / 1 VIOLATION / 2 UNDECIDED (never an alarm). Known findings: /verif/known_findings.txt.",
}
json.dump(m, open(os.path.join(V, "MANIFEST.json"), "w"), indent=1)
print("claimed:", [c["property_id"] for c in checks], "n/a:", list(na))
